"""dsim core: deterministic baton scheduler over real threads, virtual clock,
fault plan, event log.

One Sim = one simulated execution.  Every actor is a real Python thread parked
on a private semaphore; exactly one holds the baton.  Actors hand the baton
over at *seam calls* (dsim.seams / dsim.s3fake), at virtual sleeps and when they
block on a sim-aware primitive.  The scheduling decision is taken by whoever
holds the baton (no scheduler thread), so "continue with the current actor"
costs no context switch.

Determinism contract: no real clock and no global PRNG is read inside a run;
per-actor PRNG streams (names, latency) are derived from the run seed and the
actor's *name*, so they do not shift when the schedule changes (this is what
lets the minimiser drop context switches without renaming every file).
"""
from __future__ import annotations

import hashlib
import random
import sys
import threading
import traceback
from collections import Counter
from typing import Any, Callable, Dict, List, Optional, Tuple

READY, SLEEP, BLOCKED, DONE = "ready", "sleep", "blocked", "done"

EPOCH = 1_750_000_000.0  # virtual wall clock at t=0 (any fixed value)


class SimDead(BaseException):
    """The simulated process of this actor has crashed."""


class SimKilled(BaseException):
    """Run is being torn down; unwind the actor thread."""


class HarnessError(Exception):
    """The harness (not the system under test) is broken: never a verdict."""


def _h(*parts: Any) -> int:
    m = hashlib.sha256(repr(parts).encode()).digest()
    return int.from_bytes(m[:8], "big")


class Process:
    def __init__(self, sim: "Sim", name: str, skew: float = 0.0):
        self.sim = sim
        self.name = name
        self.skew = skew
        self.alive = True
        self.pause_until = 0.0
        self.fds: Dict[int, str] = {}          # fd -> path (opened through the os seam)
        self.files: List[Any] = []             # python file objects opened through the open seam
        self.seam_count = 0                    # process-local seam counter (fault addressing)
        self.exited = False                    # ended by an interrupt (F5)
        self.flock_objs: List[Any] = []        # FileLock instances created by this process

    def neutralise_locks(self) -> None:
        """The process is gone: its FileLock objects must not unlock/close recycled fd numbers
        from __del__ at some later, collector-chosen time."""
        for fl in self.flock_objs:
            try:
                fl._locked = False
                fl._lock_fd = None
            except Exception:
                pass
        self.flock_objs = []

    def __repr__(self) -> str:
        return f"<proc {self.name}>"


class Actor:
    def __init__(self, sim: "Sim", aid: int, name: str, proc: Process, fn: Callable[[], Any],
                 daemon: bool):
        self.sim = sim
        self.id = aid
        self.name = name
        self.proc = proc
        self.fn = fn
        self.daemon = daemon
        self.state = READY
        self.wake = 0.0
        self.blocked_on: Any = None
        self.step = 0            # seam calls made by this actor
        self.yields = 0          # scheduling decisions taken by this actor (schedule key)
        self.sem = threading.Semaphore(0)
        self.thread: Optional[threading.Thread] = None
        self.rng_names = random.Random(_h(sim.seed, "names", name))
        self.rng_lat = random.Random(_h(sim.seed, "lat", name))
        self.pending: Tuple[str, str] = ("", "")   # (op, cls) of the seam call about to run
        self.cur_op: Optional[dict] = None          # harness-level operation in progress
        self.error: Optional[str] = None
        self.held = False

    def runnable(self) -> bool:
        return (self.state == READY and self.proc.pause_until <= self.sim.now)

    def __repr__(self) -> str:
        return f"<actor {self.name} {self.state}>"


class Fault:
    """One planned fault.

    match keys (all optional, all must match):
      actor / proc : name
      step         : actor-local seam index (1-based) ; pstep: process-local seam index
      op, cls      : seam operation / path class ; nth: n-th matching (op, cls) call of that actor/proc
    kind:
      crash        : process dies before the effect
      crash_after  : process dies right after the effect
      error        : raise `exc` before the effect        (burst: repeat for the next n matching calls)
      error_after  : perform the effect, then raise `exc`
      interrupt    : raise KeyboardInterrupt / SystemExit before the effect (exc = "KeyboardInterrupt")
      interrupt_after
      pause        : pause the whole process for `dt` virtual seconds before the effect
      stall        : park this actor only for `dt` before the effect
      value        : seam-specific (e.g. disk_usage returns a full disk)
    """

    def __init__(self, d: dict):
        self.d = dict(d)
        self.kind = d["kind"]
        self.actor = d.get("actor")
        self.proc = d.get("proc")
        self.step = d.get("step")
        self.pstep = d.get("pstep")
        self.op = d.get("op")
        self.cls = d.get("cls")
        self.nth = d.get("nth")
        self.exc = d.get("exc")
        self.dt = d.get("dt", 0.0)
        self.burst = d.get("burst", 1)
        self.min_step = d.get("min_step")
        self.op_index = d.get("op_index")
        self.detail = d.get("detail")          # e.g. {"if_match": True}: only requests carrying that attribute
        self.seen = 0
        self.fired = 0

    PSEUDO_OPS = ("list_result", "sleep_hold")     # harness-level hook points, not storage calls

    def matches(self, a: Actor, op: str, cls: str, detail: Optional[dict] = None) -> bool:
        if self.fired >= self.burst:
            return False
        if self.detail:
            if not detail or any(detail.get(k) != v for k, v in self.detail.items()):
                return False
        if op in self.PSEUDO_OPS and self.op != op:
            return False
        if self.actor is not None and self.actor != a.name:
            return False
        if self.min_step is not None and a.step < self.min_step:
            return False
        if self.op_index is not None and (a.cur_op is None or a.cur_op.get("i") != self.op_index):
            return False
        if self.proc is not None and self.proc != a.proc.name:
            return False
        if self.op is not None and self.op != op:
            return False
        if self.cls is not None and self.cls != cls:
            return False
        if self.step is not None:
            if self.fired == 0 and a.step != self.step:
                return False
            if self.fired > 0 and a.step <= self.step:
                return False
        if self.pstep is not None:
            if self.fired == 0 and a.proc.seam_count != self.pstep:
                return False
        if self.nth is not None:
            if self.fired == 0:
                self.seen += 1
                if self.seen != self.nth:
                    return False
        return True


class Policy:
    """Scheduling policy.  choose() returns the next actor to run, or None to let
    virtual time advance (only legal when somebody is sleeping)."""

    name = "default"

    def choose(self, sim: "Sim", cur: Optional[Actor], ready: List[Actor]) -> Optional[Actor]:
        return sim.default_choice(cur, ready)

    def describe(self) -> dict:
        return {"policy": self.name}


class RandomPolicy(Policy):
    name = "random"

    def __init__(self, seed: int, p_switch: float):
        self.rng = random.Random(seed)
        self.p = p_switch

    def choose(self, sim, cur, ready):
        if cur is not None and cur in ready:
            if len(ready) == 1 or self.rng.random() >= self.p:
                return cur
            others = [a for a in ready if a is not cur]
            return others[self.rng.randrange(len(others))]
        return ready[self.rng.randrange(len(ready))]

    def describe(self):
        return {"policy": self.name, "p_switch": self.p}


class PCTPolicy(Policy):
    """PCT-style: random priorities, d change points at random global steps."""
    name = "pct"

    def __init__(self, seed: int, depth: int, horizon: int):
        self.rng = random.Random(seed)
        self.prio: Dict[str, float] = {}
        self.points = sorted(self.rng.randrange(1, max(2, horizon)) for _ in range(depth))
        self.low = 0.0
        self.depth = depth

    def _p(self, a: Actor) -> float:
        if a.name not in self.prio:
            self.prio[a.name] = 1.0 + self.rng.random()
        return self.prio[a.name]

    def choose(self, sim, cur, ready):
        while self.points and sim.gstep >= self.points[0]:
            self.points.pop(0)
            if cur is not None:
                self.low -= 1.0
                self.prio[cur.name] = self.low
        for a in ready:
            self._p(a)
        return max(ready, key=lambda a: (self._p(a), -a.id))

    def describe(self):
        return {"policy": self.name, "depth": self.depth}


class HoldPolicy(Policy):
    """Targeted hold on top of a base policy: park actor `hold` when its pending seam
    call is the nth (op, cls) match, until actor `until` has finished `until_ops`
    harness-level operations (or can make no progress)."""
    name = "hold"
    consult_single = True

    def __init__(self, base: Policy, hold: str, op: Optional[str], cls: Optional[str], nth: int,
                 until: Optional[str], until_ops: int = 1):
        self.base = base
        self.hold = hold
        self.op, self.cls, self.nth = op, cls, nth
        self.until, self.until_ops = until, until_ops
        self.seen = 0
        self.holding = False
        self.released = False
        self.last_key = None
        self.fired = False

    def _match(self, a: Actor) -> bool:
        op, cls = a.pending
        return ((self.op is None or self.op == op) and (self.cls is None or self.cls == cls))

    def choose(self, sim, cur, ready):
        if not self.released and not self.holding and cur is not None and cur.name == self.hold \
                and cur in ready and cur.pending[0]:
            key = (cur.step,)
            if key != self.last_key and self._match(cur):
                self.last_key = key
                self.seen += 1
                if self.seen == self.nth:
                    self.holding = True
                    self.fired = True
                    self.base_done = sim.ops_done.get(self.until, 0) if self.until else 0
                    sim.probe("hold_engaged")
        if self.holding:
            held = next((a for a in sim.actors if a.name == self.hold), None)
            done = False
            if self.until is not None:
                if sim.ops_done.get(self.until, 0) - self.base_done >= self.until_ops:
                    done = True
                tgt = [a for a in sim.actors if a.name == self.until or a.name.startswith(self.until + "/")]
                if tgt and all(a.state == DONE for a in tgt if a.name == self.until):
                    done = True
            others = [a for a in ready if a is not held]
            if done:
                self.holding = False
                self.released = True
            elif others:
                c = self.base.choose(sim, cur if cur in others else None, others)
                return c
            else:
                if sim.any_sleeper():
                    return None
                self.holding = False
                self.released = True
        return self.base.choose(sim, cur, ready)

    def describe(self):
        d = {"policy": self.name, "hold": self.hold, "op": self.op, "cls": self.cls, "nth": self.nth,
             "until": self.until, "until_ops": self.until_ops}
        d["base"] = self.base.describe()
        return d


class ReplayPolicy(Policy):
    """Follow an explicit deviation map {key: actor-name}; default elsewhere."""
    name = "replay"
    consult_single = True

    def __init__(self, deviations: Dict[str, Optional[str]]):
        self.dev = dict(deviations)

    def choose(self, sim, cur, ready):
        key = sim.choice_key(cur)
        if key in self.dev:
            want = self.dev[key]
            if want is None:
                if sim.any_sleeper():
                    return None
            else:
                for a in ready:
                    if a.name == want:
                        return a
        return sim.default_choice(cur, ready)


class Sim:
    current: Optional["Sim"] = None   # the one active simulation of this OS process

    def __init__(self, seed: int, policy: Optional[Policy] = None, faults: Optional[List[dict]] = None,
                 max_steps: int = 20000, clock_mode: str = "fine", clock_quantum: float = 0.001,
                 lat: Tuple[float, float] = (10e-6, 200e-6), start: float = 0.0,
                 watchdog_s: float = 120.0):
        self.seed = seed
        self.policy = policy or Policy()
        self.faults = [Fault(f) for f in (faults or [])]
        self.max_steps = max_steps
        self.clock_mode = clock_mode
        self.clock_quantum = clock_quantum
        self.lat = lat
        self.now = start
        self.frozen_at = start
        self.gstep = 0
        self.actors: List[Actor] = []
        self.procs: Dict[str, Process] = {}
        self.log: List[tuple] = []
        self.keep_log = True
        self.keep_steplog = False
        self.steplog: List[tuple] = []
        self.probes: Counter = Counter()
        self.fired: Counter = Counter()
        self.fired_log: List[dict] = []
        self.deviations: Dict[str, Optional[str]] = {}
        self.nchoices = 0
        self.idle_count = 0
        self.ops_done: Counter = Counter()
        self.observers: List[Callable[["Sim", Actor, str, str, str, Any], None]] = []
        self.outcome = "running"
        self.harness_errors: List[str] = []
        self.done_evt = threading.Event()
        self.tearing_down = False
        self.watchdog_s = watchdog_s
        self.sched_sig = hashlib.sha1()
        self._tls = threading.local()
        self.vtime_covered = 0.0
        self.start = start
        self.on_flip: List[Callable] = []
        self.extra: Dict[str, Any] = {}

    # ------------------------------------------------------------------ identity
    def me(self) -> Optional[Actor]:
        return getattr(self._tls, "actor", None)

    def proc(self, name: str, skew: float = 0.0) -> Process:
        if name not in self.procs:
            self.procs[name] = Process(self, name, skew)
        return self.procs[name]

    # ------------------------------------------------------------------ clocks
    def time_for(self, a: Optional[Actor]) -> float:
        """Wall clock as read by actor a (skew, coarse, frozen modes)."""
        t = EPOCH + self.now + (a.proc.skew if a is not None else 0.0)
        if self.clock_mode == "frozen":
            t = EPOCH + self.frozen_at + (a.proc.skew if a is not None else 0.0)
        elif self.clock_mode == "coarse":
            q = self.clock_quantum
            t = (int(t / q)) * q
        return t

    def true_time(self) -> float:
        return EPOCH + self.now

    def mono_for(self, a: Optional[Actor]) -> float:
        return 1000.0 + self.now

    # ------------------------------------------------------------------ probes / log
    def probe(self, name: str, n: int = 1) -> None:
        self.probes[name] += n

    def record(self, a: Optional[Actor], op: str, target: str, outcome: str) -> None:
        if self.keep_log:
            self.log.append((self.gstep, round(self.now, 6), a.name if a else "-", op, target, outcome))

    def digest(self) -> str:
        h = hashlib.sha256()
        for e in self.log:
            h.update(repr(e).encode())
        return h.hexdigest()

    # ------------------------------------------------------------------ actors
    def spawn(self, proc: Process, name: str, fn: Callable[[], Any], daemon: bool = False) -> Actor:
        a = Actor(self, len(self.actors), name, proc, fn, daemon)
        self.actors.append(a)
        t = threading.Thread(target=self._actor_main, args=(a,), name=f"dsim-{name}", daemon=True)
        a.thread = t
        t.start()
        return a

    def _actor_main(self, a: Actor) -> None:
        self._tls.actor = a
        a.sem.acquire()
        try:
            if self.tearing_down:
                return
            a.fn()
        except (SimDead, SimKilled):
            pass
        except BaseException as e:  # harness-level: actor bodies catch what they expect
            a.error = "".join(traceback.format_exception(type(e), e, e.__traceback__))[-4000:]
            self.harness_errors.append(f"actor {a.name}: {a.error}")
        finally:
            a.state = DONE
            if not self.tearing_down:
                try:
                    self._wake_joiners(a)
                    self._pass_baton(a)
                except BaseException as e:
                    self.harness_errors.append(f"baton after {a.name}: {e!r}")
                    self.outcome = "harness_error"
                    self.done_evt.set()

    # joiners: actors blocked in SimThread.join on this actor
    def _wake_joiners(self, a: Actor) -> None:
        for o in self.actors:
            if o.state == BLOCKED and o.blocked_on is a:
                o.state = READY
                o.blocked_on = None

    # ------------------------------------------------------------------ scheduling
    def any_sleeper(self) -> bool:
        for a in self.actors:
            if a.state == SLEEP:
                return True
            if a.state == READY and a.proc.pause_until > self.now:
                return True
        return False

    def default_choice(self, cur: Optional[Actor], ready: List[Actor]) -> Actor:
        if cur is not None and cur in ready:
            return cur
        return ready[0]

    def choice_key(self, cur: Optional[Actor]) -> str:
        return self._key

    def _live_nondaemon(self) -> bool:
        return any(a.state != DONE and not a.daemon for a in self.actors)

    def _next(self, cur: Optional[Actor]) -> Optional[Actor]:
        """Pick the next actor to run (advancing virtual time if nobody is runnable).
        Returns None when the run is over."""
        while True:
            if not self._live_nondaemon():
                self.outcome = "ok" if self.outcome == "running" else self.outcome
                return None
            ready = [a for a in self.actors if a.runnable()]
            chosen: Optional[Actor] = None
            if ready:
                if cur is not None:
                    cur.yields += 1
                    self._key = f"{cur.name}:{cur.yields}"
                else:
                    self.idle_count += 1
                    self._key = f"idle:{self.idle_count}"
                if len(ready) == 1 and not getattr(self.policy, "consult_single", False):
                    chosen = ready[0]
                else:
                    self.nchoices += 1
                    chosen = self.policy.choose(self, cur, ready)
                    dflt = self.default_choice(cur, ready)
                    if chosen is None:
                        if not self.any_sleeper():
                            chosen = dflt
                        else:
                            self.deviations[self._key] = None
                    elif chosen is not dflt:
                        self.deviations[self._key] = chosen.name
                if chosen is not None:
                    return chosen
            # nobody runnable (or policy asked for time to pass): advance the clock
            wakes = []
            for a in self.actors:
                if a.state == SLEEP:
                    wakes.append(max(a.wake, a.proc.pause_until))
                elif a.state == READY and a.proc.pause_until > self.now:
                    wakes.append(a.proc.pause_until)
            if not wakes:
                self.outcome = "deadlock"
                return None
            t = min(wakes)
            if t > self.now:
                self.now = t
            for a in self.actors:
                if a.state == SLEEP and a.wake <= self.now:
                    a.state = READY
            cur = None

    def _pass_baton(self, cur: Actor) -> None:
        """cur cannot continue (done / asleep / blocked) or is at a yield point."""
        nxt = self._next(cur)
        if nxt is None:
            self.done_evt.set()
            if cur.state != DONE:
                cur.sem.acquire()
                self._check_killed(cur)
            return
        if nxt is cur:
            return
        self.sched_sig.update(nxt.name.encode())
        nxt.sem.release()
        if cur.state != DONE:
            cur.sem.acquire()
            self._check_killed(cur)

    def _check_killed(self, a: Actor) -> None:
        if self.tearing_down:
            raise SimKilled()

    def yield_point(self) -> None:
        a = self.me()
        if a is None or self.tearing_down:
            return
        if not a.proc.alive:
            return
        self._count_step(a)
        self._pass_baton(a)
        if not a.proc.alive:
            raise SimDead()

    def sleep(self, dt: float) -> None:
        a = self.me()
        if a is None:
            return
        if self.tearing_down:
            raise SimKilled()
        if not a.proc.alive:
            raise SimDead()
        self._count_step(a)
        a.state = SLEEP
        a.wake = self.now + max(0.0, dt)
        self.record(a, "sleep", f"{dt:.6f}", "")
        self._pass_baton(a)
        if not a.proc.alive:
            raise SimDead()

    def block_on(self, prim: Any) -> None:
        a = self.me()
        assert a is not None
        a.state = BLOCKED
        a.blocked_on = prim
        self._pass_baton(a)
        if not a.proc.alive:
            raise SimDead()

    def block_until(self, prim: Any, timeout: Optional[float]) -> bool:
        """Block on prim with an optional virtual timeout.  Returns True if woken by
        unblock(), False on timeout."""
        a = self.me()
        assert a is not None
        if timeout is None:
            self.block_on(prim)
            return True
        a.state = SLEEP
        a.wake = self.now + max(0.0, timeout)
        a.blocked_on = prim
        self._pass_baton(a)
        if not a.proc.alive:
            raise SimDead()
        woke = a.blocked_on is None
        a.blocked_on = None
        return woke

    def unblock_all(self, prim: Any) -> None:
        for o in self.actors:
            if o.blocked_on is prim and o.state in (BLOCKED, SLEEP):
                o.state = READY
                o.blocked_on = None

    def _count_step(self, a: Actor) -> None:
        self.gstep += 1
        if self.gstep > self.max_steps:
            self.outcome = "step_cap"
            self.done_evt.set()
            a.sem.acquire()       # parked until teardown
            raise SimKilled()

    # ------------------------------------------------------------------ processes
    def crash(self, p: Process) -> None:
        if not p.alive:
            return
        p.alive = False
        import os as _os
        for fd in list(p.fds):
            try:
                _os.close(fd)
            except OSError:
                pass
        p.fds.clear()
        for f in p.files:
            try:
                f._dsim_real_close()
            except Exception:
                pass
        p.files.clear()
        p.neutralise_locks()
        ls = self.extra.get("flocks")
        if ls:
            for k, v in list(ls.items()):
                if v[0] == p.name:
                    del ls[k]           # the kernel dropped the dead process's locks with its fds
        # every parked actor of p will raise SimDead when it next gets the baton;
        # sleeping/blocked ones are made ready so they can die promptly.
        for a in self.actors:
            if a.proc is p and a.state in (SLEEP, BLOCKED):
                a.state = READY
                a.blocked_on = None
        for cb in self.extra.get("on_crash", []):
            cb(p)

    def exit_process(self, p: Process) -> None:
        """Orderly process end (after an interrupt unwound): fds closed, kernel locks released."""
        self.crash(p)

    # ------------------------------------------------------------------ the seam protocol
    def seam(self, op: str, cls: str, target: str, do: Callable[[], Any],
             fail: Optional[Callable[[str], BaseException]] = None,
             value_fault: Optional[Callable[[dict], Any]] = None,
             noyield: bool = False, detail: Optional[dict] = None) -> Any:
        """Run one seam call of the current actor.

        op: operation name ("replace", "put", ...) ; cls: path class ("HINT", "META", ...)
        target: abstract path/key ; do: performs the real effect and returns the result
        fail(name) -> exception object for an injected error of this seam's realistic type
        """
        a = self.me()
        if a is None:
            return do()
        if self.tearing_down:
            raise SimKilled()
        p = a.proc
        if not p.alive:
            raise SimDead()
        a.step += 1
        p.seam_count += 1
        self._count_step(a)
        a.pending = (op, cls)
        if self.keep_steplog:
            self.steplog.append((a.name, a.step, p.seam_count, op, cls, target))
        after: Optional[Fault] = None
        for f in self.faults:
            if f.matches(a, op, cls, detail):
                f.fired += 1
                k = f.kind
                self.fired[k] += 1
                self.fired_log.append({"kind": k, "actor": a.name, "step": a.step, "pstep": p.seam_count,
                                       "op": op, "cls": cls, "target": target})
                if k == "crash":
                    self.record(a, op, target, "CRASH-before")
                    self.crash(p)
                    raise SimDead()
                if k == "error":
                    self.record(a, op, target, f"ERR-before:{f.exc}")
                    exc = fail(f.exc) if fail else OSError(5, "injected EIO")
                    self._pass_baton(a) if not noyield else None
                    if not p.alive:
                        raise SimDead()
                    raise exc
                if k == "interrupt":
                    self.record(a, op, target, f"INT-before:{f.exc}")
                    p.exited = True
                    raise (SystemExit(1) if f.exc == "SystemExit" else KeyboardInterrupt())
                if k == "pause":
                    p.pause_until = max(p.pause_until, self.now + f.dt)
                    self.record(a, op, target, f"PAUSE:{f.dt}")
                elif k == "stall":
                    a.state = SLEEP
                    a.wake = self.now + f.dt
                    self.record(a, op, target, f"STALL:{f.dt}")
                elif k == "value" and value_fault is not None:
                    self.record(a, op, target, "VALUE-fault")
                    return value_fault(f.d)
                elif k in ("crash_after", "error_after", "interrupt_after"):
                    after = f
                break
        if not noyield or a.state != READY or p.pause_until > self.now:
            self._pass_baton(a)
            if not p.alive:
                raise SimDead()
        a.pending = ("", "")
        lo, hi = self.lat
        self.now += lo + (hi - lo) * a.rng_lat.random()
        try:
            res = do()
        except BaseException as e:
            self.record(a, op, target, f"raise:{type(e).__name__}")
            self._observe(a, op, cls, target, e)
            if after is not None and after.kind == "crash_after":
                self.crash(p)
                raise SimDead()
            raise
        self.record(a, op, target, "ok")
        self._observe(a, op, cls, target, res)
        if after is not None:
            if after.kind == "crash_after":
                self.record(a, op, target, "CRASH-after")
                self.crash(p)
                raise SimDead()
            if after.kind == "error_after":
                self.record(a, op, target, f"ERR-after:{after.exc}")
                raise (fail(after.exc) if fail else OSError(5, "injected EIO (after effect)"))
            if after.kind == "interrupt_after":
                self.record(a, op, target, f"INT-after:{after.exc}")
                p.exited = True
                raise (SystemExit(1) if after.exc == "SystemExit" else KeyboardInterrupt())
        return res

    def _observe(self, a: Actor, op: str, cls: str, target: str, res: Any) -> None:
        for ob in self.observers:
            ob(self, a, op, cls, target, res)

    # ------------------------------------------------------------------ run
    def run(self) -> str:
        """Run until every non-daemon actor is done (call from the harness thread)."""
        Sim.current = self
        first = self._next(None)
        if first is None:
            self._teardown()
            return self.outcome
        self.sched_sig.update(first.name.encode())
        first.sem.release()
        ok = self.done_evt.wait(self.watchdog_s)
        if not ok:
            self.outcome = "watchdog"
            import faulthandler
            faulthandler.dump_traceback(file=sys.stderr, all_threads=True)
        self._teardown()
        self.vtime_covered = self.now - self.start
        if self.harness_errors and self.outcome == "ok":
            self.outcome = "harness_error"
        return self.outcome

    def _teardown(self) -> None:
        self.tearing_down = True
        for a in self.actors:
            if a.state != DONE or (a.thread is not None and a.thread.is_alive()):
                a.sem.release()
        for a in self.actors:
            if a.thread is not None:
                a.thread.join(10.0)
                if a.thread.is_alive():
                    self.harness_errors.append(f"actor thread {a.name} did not exit")
                    if self.outcome == "ok":
                        self.outcome = "harness_error"
        # close any fd still attributed to a live process (end of simulated world)
        import os as _os
        for p in self.procs.values():
            for fd in list(p.fds):
                try:
                    _os.close(fd)
                except OSError:
                    pass
            p.fds.clear()
            for f in p.files:
                try:
                    f._dsim_real_close()
                except Exception:
                    pass
            p.files.clear()
            p.neutralise_locks()
        Sim.current = None


def cur_sim() -> Optional[Sim]:
    return Sim.current


def cur_actor() -> Optional[Actor]:
    s = Sim.current
    if s is None:
        return None
    return s.me()
