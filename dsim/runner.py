"""Batch driver: seeded search over plans/schedules/faults in worker processes,
aggregation, minimisation, replay files, evidence, known findings."""
from __future__ import annotations

import argparse
import gc
import hashlib
import importlib
import json
import os
import random
import shutil
import subprocess
import sys
import time
import traceback
from collections import Counter
from typing import Any, Dict, List, Optional

VERIF = os.path.dirname(os.path.dirname(os.path.abspath(__file__)))
PY = "/venv/bin/python"
SCRATCH_BASE = "/dev/shm/dsim" if os.path.isdir("/dev/shm") else "/var/tmp/dsim"
KNOWN = os.environ.get("DSIM_KNOWN") or os.path.join(VERIF, "known_findings.jsonl")


def h64(*parts: Any) -> int:
    return int.from_bytes(hashlib.sha256(repr(parts).encode()).digest()[:8], "big")


def load_scenario(prop: str):
    return importlib.import_module(f"scenarios.{prop.lower()}")


def repo_fingerprint() -> dict:
    try:
        head = subprocess.run(["git", "-C", "/repo", "rev-parse", "HEAD"], capture_output=True, text=True).stdout.strip()
        diff = subprocess.run(["git", "-C", "/repo", "diff", "HEAD", "--", "src"], capture_output=True).stdout
        return {"head": head, "dirty": hashlib.sha1(diff).hexdigest()[:12] if diff else ""}
    except Exception:
        return {"head": "?", "dirty": "?"}


# ---------------------------------------------------------------------------- worker
def worker_main(argv: List[str]) -> int:
    prop, tier, seed, widx, nworkers, budget, outpath, max_runs = argv[:8]
    seed, widx, nworkers, budget, max_runs = int(seed), int(widx), int(nworkers), float(budget), int(max_runs)
    import faulthandler
    faulthandler.enable()
    faulthandler.dump_traceback_later(budget + 240, exit=True)
    sys.path.insert(0, VERIF)
    import datashard
    src = os.path.realpath(os.path.dirname(datashard.__file__))
    want = os.environ.get("DSIM_SRC")
    if want:
        assert src.startswith(os.path.realpath(want)), (src, want)
    else:
        assert src.startswith("/repo/src"), f"datashard imported from {src}, not /repo/src"
    from dsim import s3fake, seams
    seams.install()
    s3fake.install()
    sc = load_scenario(prop)
    scratch = os.path.join(SCRATCH_BASE, f"w{os.getpid()}")
    os.makedirs(scratch, exist_ok=True)
    t0 = time.time()
    agg = {"runs": 0, "steps": 0, "vtime": 0.0, "probes": Counter(), "fired": Counter(), "outcomes": Counter(),
           "sigs": set(), "nontrivial_sigs": set(), "states": set(), "samples": [], "violations": [],
           "harness": [], "known_hits": Counter(), "configs": Counter()}
    idx = widx
    nviol = 0
    known_list = load_known()
    gc.disable()
    out = open(outpath, "w")
    try:
        while time.time() - t0 < budget and agg["runs"] < max_runs and nviol < 4:
            rs = h64(seed, prop, idx)
            plan = sc.gen(random.Random(rs), tier, idx)
            plan["run_seed"] = rs
            plan["idx"] = idx
            try:
                res = sc.execute(plan, os.path.join(scratch, f"r{idx}"))
            except BaseException as e:  # harness bug: never a verdict
                res = {"outcome": "harness_error", "violations": [],
                       "harness": "".join(traceback.format_exception(type(e), e, e.__traceback__))[-3000:]}
            agg["runs"] += res.get("evaluations", 1)
            agg["plans"] = agg.get("plans", 0) + 1
            agg["steps"] += res.get("steps", 0)
            agg["vtime"] += res.get("vtime", 0.0)
            agg["probes"].update(res.get("probes", {}))
            agg["fired"].update(res.get("fired", {}))
            agg["outcomes"][res.get("outcome", "?")] += 1
            agg["configs"][res.get("config", "-")] += 1
            sg = res.get("sched_sig")
            if sg:
                agg["sigs"].add(sg)
                if res.get("nontrivial"):
                    agg["nontrivial_sigs"].add(sg)
            agg["sigs"].update(res.get("sched_sigs", []))
            agg["nontrivial_sigs"].update(res.get("nontrivial_sigs", []))
            for s in res.get("state_sigs", []):
                agg["states"].add(s)
            if len(agg["samples"]) < 2 and res.get("sample") is not None:
                agg["samples"].append(res["sample"])
            if res.get("outcome") not in ("ok",):
                if res.get("outcome") == "harness_error" or res.get("outcome") in ("watchdog",):
                    agg["harness"].append({"idx": idx, "outcome": res.get("outcome"),
                                           "detail": res.get("harness", "")})
            for v in res.get("violations", [])[:3]:
                if match_known(prop, v.get("sig", ""), known_list):
                    agg["known_hits"][v.get("sig", "")] += 1
                    if agg["known_hits"][v.get("sig", "")] > 1:
                        continue        # keep one example; known findings never stop the search
                else:
                    nviol += 1
                if v.get("plan_patch"):
                    plan = dict(plan, **v["plan_patch"])
                agg["violations"].append({"idx": idx, "run_seed": rs, "plan": plan, "violation": v,
                                          "deviations": res.get("deviations"), "digest": res.get("digest"),
                                          "fired_log": res.get("fired_log")})
                break
            idx += nworkers
            if agg["runs"] % 20 == 0:
                gc.collect()
    finally:
        agg["wall"] = time.time() - t0
        for k in ("sigs", "nontrivial_sigs", "states"):
            agg[k] = sorted(agg[k])
        for k in ("probes", "fired", "outcomes", "known_hits", "configs"):
            agg[k] = dict(agg[k])
        json.dump(agg, out, default=repr)
        out.close()
        shutil.rmtree(scratch, ignore_errors=True)
    return 0


# ---------------------------------------------------------------------------- known findings
def load_known() -> List[dict]:
    out = []
    if os.path.exists(KNOWN):
        for line in open(KNOWN):
            line = line.strip()
            if line and not line.startswith("#"):
                out.append(json.loads(line))
    return out


def match_known(prop: str, sig: str, known: List[dict]) -> Optional[dict]:
    for k in known:
        if k.get("status") == "known" and k.get("property") == prop and k.get("signature") == sig:
            return k
    return None


# ---------------------------------------------------------------------------- replay / minimise
def run_plan(sc, plan: dict, deviations: Optional[dict], tag: str) -> dict:
    scratch = os.path.join(SCRATCH_BASE, f"m{os.getpid()}", tag)
    try:
        return sc.execute(plan, scratch, replay=deviations)
    except BaseException as e:
        return {"outcome": "harness_error", "violations": [],
                "harness": "".join(traceback.format_exception(type(e), e, e.__traceback__))[-3000:]}


def _has(res: dict, sig: str) -> bool:
    return any(v.get("sig") == sig for v in res.get("violations", []))


def minimise(sc, plan: dict, deviations: Optional[dict], sig: str, budget: float) -> (dict, Optional[dict], dict):
    """Shrink plan (ops/actors/faults), then the schedule (deviation list). Keeps a candidate
    only if the same signature still fails.  Returns (plan, deviations, stats)."""
    t0 = time.time()
    stats = {"tried": 0, "kept": 0, "from_ops": _plan_size(plan), "from_dev": len(deviations or {})}
    best_plan, best_dev = plan, deviations
    n = 0

    def attempt(p, d) -> Optional[dict]:
        nonlocal n
        n += 1
        stats["tried"] += 1
        r = run_plan(sc, p, d, f"c{n}")
        if _has(r, sig):
            return r
        return None

    # confirm reproducibility by deviation list first
    r0 = attempt(best_plan, best_dev)
    if r0 is None:
        stats["note"] = "initial replay by deviation list did not reproduce; unminimised"
        return plan, deviations, stats
    best_dev = r0.get("deviations", best_dev)
    changed = True
    while changed and time.time() - t0 < budget:
        changed = False
        for cand in sc.shrink(best_plan):
            if time.time() - t0 > budget:
                break
            for d in (best_dev, None):
                r = attempt(cand, d)
                if r is not None:
                    best_plan, best_dev = cand, r.get("deviations", d)
                    stats["kept"] += 1
                    changed = True
                    break
            if changed:
                break
    # schedule: ddmin over deviation keys
    if best_dev:
        keys = list(best_dev.keys())
        chunk = max(1, len(keys) // 2)
        while chunk >= 1 and time.time() - t0 < budget and keys:
            i = 0
            progressed = False
            while i < len(keys) and time.time() - t0 < budget:
                trial_keys = keys[:i] + keys[i + chunk:]
                d = {k: best_dev[k] for k in trial_keys}
                r = attempt(best_plan, d)
                if r is not None:
                    keys = trial_keys
                    best_dev = d
                    progressed = True
                    stats["kept"] += 1
                else:
                    i += chunk
            if chunk == 1 and not progressed:
                break
            chunk = max(1, chunk // 2) if chunk > 1 else (1 if progressed else 0)
    stats["to_ops"] = _plan_size(best_plan)
    stats["to_dev"] = len(best_dev or {})
    stats["wall"] = round(time.time() - t0, 1)
    return best_plan, best_dev, stats


def _plan_size(plan: dict) -> int:
    n = len(plan.get("setup", []))
    for a in plan.get("actors", []):
        n += len(a.get("ops", []))
    n += len(plan.get("faults", []))
    return n


def replay_main(prop: str, path: str) -> int:
    sys.path.insert(0, VERIF)
    from dsim import s3fake, seams
    seams.install()
    s3fake.install()
    sc = load_scenario(prop)
    rp = json.load(open(path))
    res = run_plan(sc, rp["plan"], rp.get("deviations"), "replay")
    shutil.rmtree(os.path.join(SCRATCH_BASE, f"m{os.getpid()}"), ignore_errors=True)
    sig = rp["signature"]
    hit = [v for v in res.get("violations", []) if v.get("sig") == sig]
    if hit:
        same = (res.get("digest") == rp.get("digest"))
        print(f"replay: reproduced clause={hit[0]['clause']} digest_match={same}")
        print(f"  {hit[0]['msg']}")
        known = match_known(prop, sig, load_known())
        if known:
            print(f"KNOWN-FINDING: property={prop} {known.get('what', sig)}")
            return 0
        print(f"VIOLATION property={prop} replay={path}")
        return 1
    print(f"replay: did NOT reproduce signature {sig}; outcome={res.get('outcome')} "
          f"violations={[v.get('sig') for v in res.get('violations', [])]}")
    if res.get("harness"):
        print(res["harness"])
    return 0 if res.get("outcome") == "ok" else 3


# ---------------------------------------------------------------------------- parent
def main(argv: Optional[List[str]] = None) -> int:
    ap = argparse.ArgumentParser()
    ap.add_argument("prop")
    ap.add_argument("--tier", default=os.environ.get("VERIF_TIER", "quick"))
    ap.add_argument("--seed", type=int, default=int(os.environ.get("VERIF_SEED", "1")))
    ap.add_argument("--workers", type=int, default=int(os.environ.get("VERIF_WORKERS", str(os.cpu_count() or 4))))
    ap.add_argument("--budget", type=float, default=None)
    ap.add_argument("--runs", type=int, default=10 ** 9)
    ap.add_argument("--replay", default=None)
    ap.add_argument("--no-evidence", action="store_true")
    ap.add_argument("--no-min", action="store_true")
    args = ap.parse_args(argv)
    prop = args.prop.upper()
    if os.environ.get("PYTHONHASHSEED") != "0":
        env = dict(os.environ, PYTHONHASHSEED="0")
        os.execve(PY, [PY, "-m", "dsim.runner"] + (argv if argv is not None else sys.argv[1:]), env)
    os.chdir(VERIF)
    sys.path.insert(0, VERIF)
    if args.replay:
        return replay_main(prop, args.replay)
    sc = load_scenario(prop)
    tier = args.tier if args.tier in ("quick", "thorough") else "quick"
    budget = args.budget if args.budget is not None else sc.BUDGET[tier]
    t0 = time.time()
    outdir = os.path.join(SCRATCH_BASE, f"p{os.getpid()}")
    os.makedirs(outdir, exist_ok=True)
    procs = []
    per_worker_runs = max(1, -(-args.runs // args.workers)) if args.runs < 10 ** 9 else 10 ** 9
    for w in range(args.workers):
        outp = os.path.join(outdir, f"w{w}.json")
        cmd = [PY, "-c", "import sys; sys.path.insert(0, %r); from dsim.runner import worker_main; "
                         "from dsim.runner import _hard_exit; _hard_exit(worker_main(sys.argv[1:]))" % VERIF,
               prop, tier, str(args.seed), str(w), str(args.workers), str(budget), outp, str(per_worker_runs)]
        env = dict(os.environ, PYTHONHASHSEED="0", PYTHONDONTWRITEBYTECODE="1")
        procs.append((subprocess.Popen(cmd, env=env, stdout=subprocess.PIPE, stderr=subprocess.PIPE, text=True), outp))
    aggs = []
    harness: List[str] = []
    for p, outp in procs:
        try:
            so, se = p.communicate(timeout=budget + 300)
        except subprocess.TimeoutExpired:
            p.kill()
            so, se = p.communicate()
            harness.append(f"worker timed out: {se[-2000:]}")
            continue
        if p.returncode != 0:
            harness.append(f"worker exit {p.returncode}: {se[-3000:]}")
        if os.path.exists(outp) and os.path.getsize(outp) > 0:
            try:
                aggs.append(json.load(open(outp)))
            except Exception as e:
                harness.append(f"bad worker output {outp}: {e}")
    shutil.rmtree(outdir, ignore_errors=True)

    tot = {"runs": 0, "steps": 0, "vtime": 0.0, "probes": Counter(), "fired": Counter(), "outcomes": Counter(),
           "configs": Counter()}
    sigs, ntsigs, states = set(), set(), set()
    samples, viols = [], []
    for a in aggs:
        tot["runs"] += a["runs"]
        tot["steps"] += a["steps"]
        tot["vtime"] += a["vtime"]
        for k in ("probes", "fired", "outcomes", "configs"):
            tot[k].update(a.get(k, {}))
        sigs.update(a["sigs"])
        ntsigs.update(a["nontrivial_sigs"])
        states.update(a["states"])
        samples.extend(a["samples"])
        viols.extend(a["violations"])
        for hh in a.get("harness", []):
            harness.append(f"run {hh['idx']}: {hh['outcome']}: {hh['detail'][-1500:]}")
    wall = time.time() - t0

    # violations -> known / new, minimise new ones
    known = load_known()
    by_sig: Dict[str, dict] = {}
    for v in sorted(viols, key=lambda v: v["idx"]):
        by_sig.setdefault(v["violation"]["sig"], v)
    new_paths = []
    known_lines = []
    fp = repo_fingerprint()
    for sig, v in by_sig.items():
        k = match_known(prop, sig, known)
        if k:
            known_lines.append(f"KNOWN-FINDING: property={prop} {k.get('what', sig)}")
            continue
        plan, dev = v["plan"], v["deviations"]
        mstats = {}
        if not args.no_min:
            from dsim import s3fake, seams
            seams.install()
            s3fake.install()
            plan, dev, mstats = minimise(sc, plan, dev, sig, sc.MIN_BUDGET.get(tier, 20))
            shutil.rmtree(os.path.join(SCRATCH_BASE, f"m{os.getpid()}"), ignore_errors=True)
            final = run_plan(sc, plan, dev, "final")
            shutil.rmtree(os.path.join(SCRATCH_BASE, f"m{os.getpid()}"), ignore_errors=True)
            hit = [x for x in final.get("violations", []) if x.get("sig") == sig]
            digest = final.get("digest") if hit else v["digest"]
            viol = hit[0] if hit else v["violation"]
            flog = final.get("fired_log") if hit else v.get("fired_log")
            if not hit:
                plan, dev = v["plan"], v["deviations"]
        else:
            digest, viol, flog = v["digest"], v["violation"], v.get("fired_log")
        rdir = os.environ.get("DSIM_REPLAY_DIR") or os.path.join(VERIF, "replays")
        os.makedirs(rdir, exist_ok=True)
        name = f"{prop}-{args.seed}-{v['idx']}-{hashlib.sha1(sig.encode()).hexdigest()[:8]}.json"
        path = os.path.join(rdir, name)
        json.dump({"property": prop, "signature": sig, "clause": viol["clause"], "message": viol["msg"],
                   "seed": args.seed, "idx": v["idx"], "run_seed": v["run_seed"], "plan": plan,
                   "deviations": dev, "fired_faults": flog, "digest": digest, "pythonhashseed": "0",
                   "repo": fp, "minimise": mstats, "detail": viol.get("detail")},
                  open(path, "w"), indent=1, default=repr)
        new_paths.append((sig, path, viol))

    # evidence
    nt = len(ntsigs)
    ev = {
        "property_id": prop, "tier": tier, "seed": args.seed, "level": sc.LEVEL,
        "coverage": {
            "evaluations": tot["runs"],
            "distinct_nontrivial": nt,
            "rule": sc.RULE,
            "samples": samples[:3],
            "distinct_interleavings": len(sigs),
            "distinct_abstract_states": len(states),
            "simulated_steps": tot["steps"],
            "simulated_seconds": round(tot["vtime"], 3),
            "runs_per_hour": int(tot["runs"] / max(wall, 1e-9) * 3600),
            "faults_fired": dict(tot["fired"]),
            "probes": dict(tot["probes"]),
            "outcomes": dict(tot["outcomes"]),
            "configurations": dict(tot["configs"]),
            "silent_probes": [p for p in getattr(sc, "EXPECT_PROBES", []) if tot["probes"].get(p, 0) == 0],
            "components": sc.COMPONENTS,
            "workers": args.workers,
            "known_findings_hit": known_lines,
            "repo": fp,
        },
        "assumptions": sc.ASSUMPTIONS,
        "wall_s": round(wall, 2),
        "violations": len(new_paths),
    }
    if not args.no_evidence:
        os.makedirs(os.path.join(VERIF, "evidence"), exist_ok=True)
        json.dump(ev, open(os.path.join(VERIF, "evidence", f"{prop}.json"), "w"), indent=1, default=repr)

    print(f"[{prop}] tier={tier} seed={args.seed} runs={tot['runs']} steps={tot['steps']} "
          f"sim_s={tot['vtime']:.0f} interleavings={len(sigs)} nontrivial={nt} states={len(states)} "
          f"wall={wall:.1f}s outcomes={dict(tot['outcomes'])}")
    print(f"[{prop}] faults fired: {dict(tot['fired'])}")
    print(f"[{prop}] probes: {dict(tot['probes'])}")
    if ev["coverage"]["silent_probes"]:
        print(f"[{prop}] coverage warning, silent probes: {ev['coverage']['silent_probes']}")
    for line in known_lines:
        print(line)
    rc = 0
    for sig, path, viol in new_paths:
        print(f"  violated clause {viol['clause']}: {viol['msg']}")
        print(f"VIOLATION property={prop} replay={path}")
        rc = 1
    if harness:
        for hline in harness[:5]:
            print(f"HARNESS-ERROR: {hline}", file=sys.stderr)
        if rc == 0:
            rc = 3
    if tot["runs"] == 0 and rc == 0:
        print("HARNESS-ERROR: no runs executed", file=sys.stderr)
        rc = 3
    return rc


def _hard_exit(rc: int) -> None:
    # skip interpreter finalisation: pyarrow / parked daemon threads can abort() during it,
    # which would turn a verdict into a spurious non-zero exit
    try:
        sys.stdout.flush()
        sys.stderr.flush()
    finally:
        os._exit(rc)


if __name__ == "__main__":
    _hard_exit(main())
