"""Sensitivity self-test: small source mutations applied to a scratch copy of /repo/src
(never to /repo itself); each must be reported by the check of the property it breaks.

usage: python -m dsim.mutants [--only NAME[,NAME]] [--budget S] [--list]
Also `--reverts`: re-introduce each defect repaired by a `fix:` commit (reverse patch) and
require the owning check to report it again.
"""
from __future__ import annotations

import argparse
import json
import os
import shutil
import subprocess
import sys
import time

VERIF = os.path.dirname(os.path.dirname(os.path.abspath(__file__)))
BASE = "/dev/shm/dsim-mut" if os.path.isdir("/dev/shm") else "/var/tmp/dsim-mut"

M = "metadata_manager.py"
T = "transaction.py"
S = "storage_backend.py"
G = "garbage_collector.py"
L = "lock_provider.py"
F = "file_lock.py"
SM = "snapshot_manager.py"
D = "data_operations.py"
FM = "file_manager.py"
C = "s3_consistency.py"

MUTANTS = [
    {"name": "occ_no_validation", "props": ["C01"], "file": M,
     "find": "                if current and current.current_snapshot_id != base_metadata.current_snapshot_id:",
     "repl": "                if False and current and current.current_snapshot_id != base_metadata.current_snapshot_id:",
     "also": [("                if current and current.last_updated_ms != base_metadata.last_updated_ms:",
               "                if False and current and current.last_updated_ms != base_metadata.last_updated_ms:")]},
    {"name": "occ_ignore_last_updated", "props": ["C01"], "file": M,
     "find": "                if current and current.last_updated_ms != base_metadata.last_updated_ms:",
     "repl": "                if False and current and current.last_updated_ms != base_metadata.last_updated_ms:"},
    {"name": "filelock_release_unlinks", "props": ["C19", "C01"], "file": F,
     "find": "                    os.close(self._lock_fd)\n\n            self._lock_fd = None",
     "repl": "                    os.close(self._lock_fd)\n                    os.unlink(self.lock_file)\n\n            self._lock_fd = None"},
    {"name": "hint_before_metadata", "props": ["C03", "C16"], "file": M,
     "find": "                self._write_metadata_file(metadata_path, new_metadata)\n\n                # PHASE 3.5",
     "repl": "                self._write_hint_at_commit_point(metadata_file, hint_etag)\n                self._write_metadata_file(metadata_path, new_metadata)\n\n                # PHASE 3.5",
     "also": [("                    self._write_hint_at_commit_point(metadata_file, hint_etag)\n                except AmbiguousCommitError:",
               "                    pass\n                except AmbiguousCommitError:")]},
    {"name": "nonatomic_local_publish", "props": ["C03", "C16", "C02"], "file": S,
     "find": "            # Atomic rename - makes new content visible atomically\n            # os.replace() is atomic on both POSIX and Windows\n            os.replace(temp_path, full_path)",
     "repl": "            os.remove(temp_path)\n            with open(full_path, 'wb') as _f:\n                _f.write(content)"},
    {"name": "ambiguous_deletes_files", "props": ["C04"], "file": T,
     "find": "                self._rollback(delete_files=False)\n                raise\n            except Exception as e:",
     "repl": "                self._rollback()\n                raise\n            except Exception as e:"},
    {"name": "rollback_on_interrupt_deletes", "props": ["C04"], "file": T,
     "find": "                self._rollback(delete_files=False)\n                raise\n\n        # This line should not be reached",
     "repl": "                self._rollback()\n                raise\n\n        # This line should not be reached"},
    {"name": "gc_reach_current_only", "props": ["C05", "C09"], "file": G,
     "find": "        for snapshot in metadata.snapshots:\n            m_list_path = snapshot.manifest_list",
     "repl": "        for snapshot in [s for s in metadata.snapshots if s.snapshot_id == metadata.current_snapshot_id]:\n            m_list_path = snapshot.manifest_list"},
    {"name": "gc_ignores_markers", "props": ["C05", "C06", "C07"], "file": G,
     "find": "        protected_files = self._load_inflight_protection(inflight_timeout_ms)\n\n        # 1. Refresh",
     "repl": "        protected_files = set()\n\n        # 1. Refresh"},
    {"name": "gc_markers_read_after_metadata", "props": ["C06"], "file": G,
     "find": "        protected_files = self._load_inflight_protection(inflight_timeout_ms)\n\n        # 1. Refresh",
     "repl": "        # 1. Refresh",
     "also": [("        # 3. In-flight protection was loaded up front (step 0)\n",
               "        protected_files = self._load_inflight_protection(inflight_timeout_ms)\n")]},
    {"name": "marker_removed_before_flip", "props": ["C06"], "file": T,
     "find": "        # 5. Commit the snapshot - with the SAME id stamped into the manifests.",
     "repl": "        for _m in list(self._inflight_markers):\n            self.file_manager.storage.delete_file(_m)\n        self._inflight_markers = []\n        # 5. Commit the snapshot - with the SAME id stamped into the manifests."},
    {"name": "no_marker_for_written_data_files", "props": ["C06"], "file": T,
     # (was "marker_after_file": since append_files() registers unregistered files, dropping only append_data's own
     #  registration merely moves the marker after the write - harmless while the file is young; drop both)
     "find": "        self._register_inflight(file_path)\n\n        # Use the data file manager to write the data",
     "repl": "        # Use the data file manager to write the data",
     "also": [("            if not self._has_inflight_marker(data_file.file_path):\n                self._register_inflight(data_file.file_path)",
               "            pass")]},
    {"name": "gc_swallow_manifest_error", "props": ["C07"], "file": G,
     "find": "            except Exception as e:\n                raise GarbageCollectionAborted(\n                    f\"Aborting GC: cannot read reachable manifest {m_path}: {e}. \"\n                    f\"Nothing was deleted.\"\n                ) from e",
     "repl": "            except Exception as e:\n                continue"},
    {"name": "gc_marker_list_swallowed", "props": ["C07"], "file": G,
     "find": "            raise GarbageCollectionAborted(\n                f\"Aborting GC: cannot list in-flight markers under {INFLIGHT_PATH}: {e}. \"\n                f\"Nothing was deleted.\"\n            ) from e",
     "repl": "            markers = []"},
    {"name": "hint_put_unconditional", "props": ["C08"], "file": M,
     "find": "                self.storage.write_file_cas(self.HINT_PATH, content, hint_etag)\n                return",
     "repl": "                self.storage.write_file(self.HINT_PATH, content)\n                return"},
    {"name": "no_fence", "props": ["C08"], "file": M,
     "find": "                    if not self.lock_provider.is_held():",
     "repl": "                    if False:"},
    {"name": "is_held_cached_flag", "props": ["C19", "C08"], "file": L,
     "find": "        if not self.is_locked:\n            return False\n        import botocore.exceptions\n\n        for attempt in range(2):",
     "repl": "        return self.is_locked\n        import botocore.exceptions\n\n        for attempt in range(2):"},
    {"name": "takeover_without_lease_test", "props": ["C19"], "file": L,
     "find": "        if age <= self.lease_seconds:\n            return False\n\n        logger.warning(\n            f\"Taking over expired S3 lock",
     "repl": "        if False:\n            return False\n\n        logger.warning(\n            f\"Taking over expired S3 lock"},
    {"name": "recovery_picks_lowest", "props": ["C10"], "file": M,
     "find": "            if best is None or version > best[0]:",
     "repl": "            if best is None or version < best[0]:"},
    {"name": "init_when_hint_unreadable", "props": ["C10", "C18"], "file": M,
     "find": "                return hinted\n        return self._recover_version_from_files()",
     "repl": "                return hinted\n        return None"},
    {"name": "init_skips_exists_check", "props": ["C18"], "file": M,
     "find": "                if self._current_version_info() is not None:\n                    raise TableExistsError(",
     "repl": "                if False:\n                    raise TableExistsError("},
    {"name": "drop_file_fsync", "props": ["C16"], "file": S,
     "find": "            # Ensure data is written to disk (durability guarantee)\n            os.fsync(fd)",
     "repl": "            # Ensure data is written to disk (durability guarantee)\n            pass"},
    {"name": "drop_dir_fsync", "props": ["C16"], "file": S,
     "find": "                dir_fd = os.open(dir_path, os.O_RDONLY)\n                try:\n                    os.fsync(dir_fd)",
     "repl": "                dir_fd = os.open(dir_path, os.O_RDONLY)\n                try:\n                    pass"},
    {"name": "drop_parquet_fsync", "props": ["C16"], "file": D,
     "find": "                    fsync_fd = os.open(temp_name, os.O_RDONLY)\n                    try:\n                        os.fsync(fsync_fd)",
     "repl": "                    fsync_fd = os.open(temp_name, os.O_RDONLY)\n                    try:\n                        pass"},
    {"name": "s3_exists_by_prefix", "props": ["C20"], "file": S,
     "find": "            if not key.endswith(\"/\"):\n                return False",
     "repl": "            if False:\n                return False"},
    {"name": "retry_permanent_errors", "props": ["C20"], "file": C,
     "find": "                if is_permanent_s3_error(e):",
     "repl": "                if False and is_permanent_s3_error(e):"},
    {"name": "unclamped_range_read", "props": ["C20"], "file": S,
     "find": "        last = min(self._pos + want, self._size) - 1",
     "repl": "        last = self._pos + want - 1"},
    {"name": "expire_drops_current", "props": ["C15", "C09"], "file": T,
     "find": "                if s.timestamp_ms >= cutoff_ms\n                or s.snapshot_id == metadata.current_snapshot_id",
     "repl": "                if s.timestamp_ms >= cutoff_ms"},
    {"name": "rewrite_restamps_carried_entries", "props": ["C15"], "file": FM,
     "find": "                entry_snapshot_id = df.added_snapshot_id\n                entry_sequence_number = df.sequence_number",
     "repl": "                entry_snapshot_id = snapshot_id_val\n                entry_sequence_number = sequence_number"},
    {"name": "parents_not_repointed", "props": ["C15"], "file": SM,
     "find": "            repoint_parents_to_surviving_ancestors(before_removal, new_metadata.snapshots)",
     "repl": "            pass"},
    {"name": "time_travel_strict_less", "props": ["C09"], "file": SM,
     "find": "            if snapshot.timestamp_ms <= timestamp_ms:\n                target_snapshot = snapshot\n\n        return target_snapshot",
     "repl": "            if snapshot.timestamp_ms < timestamp_ms:\n                target_snapshot = snapshot\n\n        return target_snapshot"},
    {"name": "delete_current_repoints_by_max_id", "props": ["C09", "C15"], "file": SM,
     "find": "        for entry in reversed(metadata.snapshot_log):\n            if entry.snapshot_id in remaining_ids:\n                return entry.snapshot_id",
     "repl": "        return max(remaining_ids)"},
    # (a mutant that merely skips the schema-argument comparison is EQUIVALENT since fix c6108cc: the persisted
    #  schema is used for validation and writing whatever the argument says)
    # ("append_writes_with_argument_schema" - write with the caller's equivalent-but-reordered schema - was retired: since the
    #  Arrow-schema cache is keyed by content (ded9070) the footer check of append_files refuses such a file, and the commit-time
    #  re-validation (989e126) would refuse it as well: the change no longer breaks any property. Its successor is
    #  "schema_cache_by_id_and_no_commit_revalidation".)
    {"name": "prebuilt_file_schema_not_checked", "props": ["C11"], "file": T,
     "find": "        if not actual.equals(expected, check_metadata=False):",
     "repl": "        if False:"},
    {"name": "scan_skips_unreadable_data_file", "props": ["C14"], "file": T,
     "find": "            tables = [read_one(df) for df in data_files]",
     "repl": "            tables = []\n            for df in data_files:\n                try:\n                    tables.append(read_one(df))\n                except Exception:\n                    pass\n            if not tables:\n                return None"},
    {"name": "missing_manifest_reads_empty", "props": ["C14"], "file": T,
     "find": "            if not self.storage.exists(manifest_path):\n                raise RuntimeError(\n                    f\"Manifest list references missing manifest",
     "repl": "            if not self.storage.exists(manifest_path):\n                continue\n                raise RuntimeError(\n                    f\"Manifest list references missing manifest"},
    {"name": "checksum_not_verified", "props": ["C14"], "file": T,
     "find": "            if not IntegrityChecker.verify_checksum(raw, data_file.checksum):\n                raise CorruptDataError(\n                    f\"Checksum mismatch for data file {data_file.file_path}: \"",
     "repl": "            if False:\n                raise CorruptDataError(\n                    f\"Checksum mismatch for data file {data_file.file_path}: \""},
    {"name": "reader_double_refresh", "props": ["C02"], "file": T,
     "find": "        metadata = self.metadata_manager.refresh()\n        snapshot = None\n        if metadata is not None and metadata.current_snapshot_id is not None:",
     "repl": "        snapshot = self.current_snapshot()\n        metadata = self.metadata_manager.refresh()\n        if False:"},
    {"name": "gc_young_files_deleted", "props": ["C06"], "file": G,
     "find": "                    if self.storage.get_modified_time(file_rel_path) * 1000 < cutoff_time:",
     "repl": "                    if True:"},
    {"name": "delete_removes_too_much", "props": ["C15", "C01"], "file": T,
     "find": "                elif len(surviving_files) > 0:",
     "repl": "                elif len(surviving_files) > 1:"},
    {"name": "local_exists_true_for_directories", "props": ["C20"], "file": "storage_backend.py",   # = revert of 7920bb5
     "find": "        if stat.S_ISDIR(st.st_mode):\n            return path.endswith(\"/\") or path.endswith(os.sep)\n        return True",
     "repl": "        return True"},
    {"name": "gc_strips_location_as_string_prefix", "props": ["C05"], "file": G,      # = revert of 66ad869 on the current code
     "find": "        if (\n            first_component not in (\"data\", \"metadata\")\n            and root.startswith(\"/\")\n            and path.startswith(root + \"/\")\n        ):\n            relative = path[len(root):].lstrip(\"/\")",
     "repl": "        if path.startswith(self.table_path):\n            relative = path[len(self.table_path):].lstrip(\"/\")"},
    {"name": "validate_then_read_etag", "props": ["C08"], "file": M,                  # = revert of 02d4ecb on the current code
     "find": "                            current = self._read_metadata_file(\n                                f\"{self.metadata_path}/{previous_metadata_file}\"\n                            )\n                            validated_from_hint = True",
     "repl": "                            validated_from_hint = True",
     "also": [("                if self.storage.supports_cas:\n                    for attempt in (0, 1):",
               "                current = self.refresh()\n                if self.storage.supports_cas:\n                    for attempt in (0, 1):"),
              ("                if not validated_from_hint:\n                    current = self.refresh()", "                pass")]},
    # ---- equivalents of fix commits whose textual revert no longer applies to the current code
    {"name": "frac_float_into_int_accepted", "props": ["C11"], "file": D,                 # e362918
     "find": "                if isinstance(value, float) and (\n                    value != value or value in (float(\"inf\"), float(\"-inf\")) or value != int(value)\n                ):",
     "repl": "                if False:"},
    {"name": "local_exists_swallows_errors", "props": ["C14", "C07"], "file": S,           # da6a982
     "find": "                return False  # no file can have this name: \"not there\", not a storage failure\n            raise",
     "repl": "                return False\n            return False"},
    {"name": "recovery_swallows_listing_error", "props": ["C04"], "file": M,               # b4313ab (+ da6a982, which masks it)
     "find": "        all_files = self.storage.list_files(self.metadata_path)\n",
     "repl": "        try:\n            all_files = self.storage.list_files(self.metadata_path)\n        except Exception:\n            return None\n",
     "also_files": [(S, "                return False  # no file can have this name: \"not there\", not a storage failure\n            raise",
                     "                return False\n            return False")]},
    {"name": "lock_body_without_counter", "props": ["C19"], "file": L,                     # 1c6f396 / 4b15b99
     "find": "        return f\"{self.lock_id}:{self._renewals}\".encode('utf-8')",
     "repl": "        return self.lock_id.encode('utf-8')"},
    {"name": "append_files_writes_no_marker", "props": ["C05", "C06"], "file": T,          # 1392b8b
     "find": "            if not self._has_inflight_marker(data_file.file_path):\n                self._register_inflight(data_file.file_path)",
     "repl": "            pass"},
    {"name": "gc_compares_raw_path_spellings", "props": ["C05"], "file": G,                # eb1285e
     "find": "            relative = posixpath.normpath(relative)",
     "repl": "            pass"},
    {"name": "marker_named_by_basename", "props": ["C05", "C06"], "file": T,               # d43d43e
     "find": "        marker_path = f\"{_INFLIGHT_PATH}/{uuid.uuid4().hex}.inflight\"",
     "repl": "        marker_path = _INFLIGHT_PATH + \"/\" + file_path.rsplit(\"/\", 1)[-1] + \".inflight\""},
    {"name": "schema_cache_by_id_and_no_commit_revalidation", "props": ["C18"], "file": D,  # ded9070 + 989e126
     "find": "        cache_key = (\n            iceberg_schema.schema_id,\n            json.dumps(iceberg_schema.fields, sort_keys=True, default=str),\n        )",
     "repl": "        cache_key = iceberg_schema.schema_id",
     "also_files": [(T, "                    self._revalidate_written_schemas(base_metadata)\n", "                    pass\n")]},
    {"name": "seq_from_snapshot_count", "props": ["C15", "C01"], "file": T,
     "find": "        sequence_number = base_metadata.last_sequence_number + 1",
     "repl": "        sequence_number = len(base_metadata.snapshots) + 1"},
]

REVERTS = [
    ("9ca1d8a", ["C01"]), ("336ed11", ["C04"]), ("d830242", ["C04"]), ("abb63e7", ["C02"]), 
 ("0c9977b", ["C07"]), ("2a5d64e", ["C07"]), ("b46438b", ["C07"]),
     ("0ad9135", ["C09"]), ("6e33d4e", ["C10"]),  
    ("e7f960c", ["C20"]),  ("4f0c1c6", ["C10"]),  
    ("fd90d27", ["C04"]),   ("ed11f52", ["C14", "C07"]), 
    ("fc4462d", ["C15"]), ("536e3b6+b820994", ["C07"]), ("8863d66+a5aab9a+1e5d23a", ["C20"]), ("c4adbf8", ["C20"]), ("1d7d02a+7e7ea08+f9a7bc8", ["C20"]), ("4644358+c069746", ["C18"]), ("180d253", ["C11"]), ("536e3b6+b820994+7c8d896", ["C06"]), ("8863d66+787d8c3+3c1fb9f+b7a2891", ["C11"]), ("180d253+e336573+3125173", ["C11"]), ("8863d66+787d8c3+3c1fb9f+b7a2891+bc34c9c", ["C11"]),  ("4b15b99", ["C19"]), ("4644358+c069746+f85e07b+e81c9c4", ["C16"]), ("09d4462", ["C11"]),  ("8acb033", ["C10"]), ("38d48b4", ["C14"]), ("c16fd62", ["C04"]), ("0034e06", ["C04"]), ("470f494", ["C08"]),
]


def make_copy(name: str) -> str:
    d = os.path.join(BASE, name)
    shutil.rmtree(d, ignore_errors=True)
    os.makedirs(d)
    shutil.copytree("/repo/src", os.path.join(d, "src"), ignore=shutil.ignore_patterns("__pycache__", "*.egg-info"))
    return d


def apply_mutant(d: str, m: dict) -> None:
    p = os.path.join(d, "src", "datashard", m["file"])
    s = open(p).read()
    for (f2, find2, repl2) in m.get("also_files", []):
        p2 = os.path.join(d, "src", "datashard", f2)
        s2 = open(p2).read()
        if s2.count(find2) != 1:
            raise RuntimeError(f"mutant {m['name']}: secondary pattern found {s2.count(find2)} times in {f2}")
        open(p2, "w").write(s2.replace(find2, repl2))
    pairs = [(m["find"], m["repl"])] + list(m.get("also", []))
    for find, repl in pairs:
        if s.count(find) != 1:
            raise RuntimeError(f"mutant {m['name']}: pattern found {s.count(find)} times in {m['file']}")
        s = s.replace(find, repl)
    open(p, "w").write(s)
    compile(s, p, "exec")


def apply_revert(d: str, commit: str) -> None:
    if "+" in commit:
        # several commits, reverted in the order given (newest first): a later fix that masks an earlier one
        for c in commit.split("+"):
            apply_revert(d, c)
        return
    diff = subprocess.run(["git", "-C", "/repo", "show", "--format=", commit, "--", "src"], capture_output=True, text=True,
                          check=True).stdout
    r = subprocess.run(["patch", "-R", "-p1", "-d", d, "--no-backup-if-mismatch"], input=diff, capture_output=True, text=True)
    if r.returncode != 0:
        raise RuntimeError(f"revert {commit} does not apply: {r.stdout[-500:]} {r.stderr[-300:]}")


def run_check(prop: str, d: str, budget: float, seed: int) -> (int, str):
    env = dict(os.environ, DSIM_SRC=os.path.join(d, "src"), PYTHONPATH=os.path.join(d, "src"), PYTHONHASHSEED="0", DSIM_REPLAY_DIR=os.path.join(d, "replays"),
               PYTHONDONTWRITEBYTECODE="1")
    r = subprocess.run([os.path.join(VERIF, "check"), prop, "--tier", "quick", "--budget", str(budget), "--seed", str(seed),
                        "--no-evidence", "--no-min"], env=env, capture_output=True, text=True, timeout=budget + 400)
    return r.returncode, r.stdout + r.stderr[-2000:]


def main(argv=None) -> int:
    ap = argparse.ArgumentParser()
    ap.add_argument("--only", default="")
    ap.add_argument("--budget", type=float, default=25.0)
    ap.add_argument("--seed", type=int, default=3)
    ap.add_argument("--list", action="store_true")
    ap.add_argument("--reverts", action="store_true")
    ap.add_argument("--out", default=os.path.join(VERIF, "evidence", "mutants.json"))
    args = ap.parse_args(argv)
    only = set(x for x in args.only.split(",") if x)
    todo = []
    if not args.reverts or only:
        todo += [("mut", m["name"], m) for m in MUTANTS if not only or m["name"] in only]
    if args.reverts:
        todo += [("rev", f"revert_{c}", (c, props)) for (c, props) in REVERTS if not only or f"revert_{c}" in only]
    if args.list:
        for k, n, _x in todo:
            print(k, n)
        return 0
    results = []
    missed = 0
    for kind, name, spec in todo:
        t0 = time.time()
        d = make_copy(name)
        try:
            if kind == "mut":
                apply_mutant(d, spec)
                props = spec["props"]
            else:
                apply_revert(d, spec[0])
                props = spec[1]
            caught_by = []
            lines = []
            for prop in props:
                rc, out = run_check(prop, d, args.budget, args.seed)
                vio = [l for l in out.splitlines() if l.strip().startswith("violated clause")]
                harness = [l for l in out.splitlines() if "HARNESS-ERROR" in l]
                if rc == 1 and vio:
                    caught_by.append(prop)
                    lines.append(f"{prop}: {vio[0].strip()[:200]}")
                    break
                if harness:
                    lines.append(f"{prop}: rc={rc} {harness[0][:300]}")
            ok = bool(caught_by)
            if not ok:
                missed += 1
            results.append({"mutant": name, "kind": kind, "expected": props, "caught_by": caught_by, "evidence": lines,
                            "wall_s": round(time.time() - t0, 1)})
            print(f"[mutants] {name:40s} {'CAUGHT by ' + ','.join(caught_by) if ok else 'MISSED (tried ' + ','.join(props) + ')'} "
                  f"{lines[0][:160] if lines else ''}", flush=True)
        except Exception as e:
            results.append({"mutant": name, "kind": kind, "error": repr(e)[:400]})
            print(f"[mutants] {name:40s} ERROR {e!r}"[:300], flush=True)
            missed += 1
        finally:
            shutil.rmtree(d, ignore_errors=True)
    try:
        os.makedirs(os.path.dirname(args.out), exist_ok=True)
        prev = []
        if os.path.exists(args.out) and only:
            prev = [r for r in json.load(open(args.out)).get("results", []) if r["mutant"] not in {x["mutant"] for x in results}]
        json.dump({"results": prev + results, "budget_s": args.budget, "seed": args.seed}, open(args.out, "w"), indent=1)
    except Exception:
        pass
    print(f"[mutants] {len(results) - missed}/{len(results)} caught")
    shutil.rmtree(BASE, ignore_errors=True)
    return 0 if missed == 0 else 1


if __name__ == "__main__":
    rc = main()
    sys.stdout.flush()
    os._exit(rc)
