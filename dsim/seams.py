"""Seams: everything nondeterministic that datashard touches, routed through the
simulator.  Installed from outside /repo by replacing module attributes; calls
from non-actor threads (harness, independent reader) pass straight through.
"""
from __future__ import annotations

import builtins
import datetime as _dt_mod
import errno
import fcntl as _real_fcntl
import io
import os as _os
import random as _random_mod
import shutil as _shutil
import stat as _stat
import sys
import threading as _threading
import time as _time_mod
import uuid as _uuid_mod
from typing import Any, Dict, List, Optional

from . import core
from .core import Sim, cur_actor, cur_sim

_real_open = builtins.open
_real_time = _time_mod.time
_real_monotonic = _time_mod.monotonic
_real_sleep = _time_mod.sleep
_real_uuid4 = _uuid_mod.uuid4
_real_uniform = _random_mod.uniform
_real_random = _random_mod.random
_real_datetime = _dt_mod.datetime

HINT = "metadata.version-hint.text"


# ---------------------------------------------------------------------------- path classes
def classify_rel(rel: str) -> str:
    rel = rel.replace("\\", "/")
    base = rel.rsplit("/", 1)[-1]
    tmp = ""
    if base.startswith(".tmp."):
        # .tmp.<8 chars>.<final basename>
        rest = base[5:]
        base = rest.split(".", 1)[1] if "." in rest else rest
        rel = (rel.rsplit("/", 1)[0] + "/" + base) if "/" in rel else base
        tmp = "_TMP"
    elif base.startswith("tmp") and base.endswith(".parquet") and rel.startswith("data/"):
        tmp = "_TMP"
    if rel == HINT:
        c = "HINT"
    elif rel.startswith("metadata/inflight/") or rel == "metadata/inflight":
        c = "MARKER"
    elif rel.startswith("metadata/manifests/manifest_list_"):
        c = "MLIST"
    elif rel.startswith("metadata/manifests/") or rel == "metadata/manifests":
        c = "MANIFEST"
    elif rel.startswith("metadata/") and base.endswith(".metadata.json"):
        c = "META"
    elif rel.startswith("metadata/") or rel == "metadata":
        c = "METADIR"
    elif rel.startswith("data/") or rel == "data":
        c = "DATA"
    elif rel.startswith(".locks/") or rel == ".locks":
        c = "LOCK"
    elif rel in ("", "."):
        c = "ROOT"
    else:
        c = "OTHER"
    return c + tmp


def _roots(sim: Sim) -> List[str]:
    return sim.extra.get("roots", [])


def relpath_of(sim: Sim, path: Any) -> str:
    """Abstract (root-relative) spelling of a real path, for the event log."""
    try:
        p = _os.fspath(path)
    except TypeError:
        return repr(path)
    if isinstance(p, bytes):
        p = p.decode("utf-8", "replace")
    ap = _os.path.abspath(p)
    for r in _roots(sim):
        if ap == r:
            return "."
        if ap.startswith(r + "/"):
            return ap[len(r) + 1:]
    rp = _os.path.realpath(p)
    for r in _roots(sim):
        if rp == r:
            return "."
        if rp.startswith(r + "/"):
            return rp[len(r) + 1:]
    scratch = sim.extra.get("scratch")
    if scratch and ap.startswith(scratch):
        return "<scratch>" + ap[len(scratch):]
    return "<abs>" + ap


def _cls_of(sim: Sim, path: Any) -> (str, str):
    rel = relpath_of(sim, path)
    if rel.startswith("<"):
        mon = sim.extra.get("outside")
        if mon is not None and not rel.startswith("<scratch>/cwd"):
            mon.append(rel)
        return "OUTSIDE", rel
    return classify_rel(rel), rel


def _oserr(name: Optional[str]) -> OSError:
    code = {"EIO": errno.EIO, "ENOSPC": errno.ENOSPC, "EACCES": errno.EACCES, "ENOENT": errno.ENOENT,
            "EMFILE": errno.EMFILE, "EINTR": errno.EINTR, "EROFS": errno.EROFS}.get(name or "EIO", errno.EIO)
    return OSError(code, f"injected {name or 'EIO'}")


def _seam(op: str, path: Any, do, detail: Optional[dict] = None, **kw) -> Any:
    sim = cur_sim()
    if sim is None or sim.me() is None:
        return do()
    cls, rel = _cls_of(sim, path)
    sh = sim.extra.get("shadow")
    if sh is None:
        return sim.seam(op, cls, rel, do, fail=_oserr, **kw)

    def do2():
        r = do()
        sh.after(op, path, r, detail or {})
        return r
    return sim.seam(op, cls, rel, do2, fail=_oserr, **kw)


def _touch_vtime(sim: Sim, path: str) -> None:
    t = sim.true_time()
    try:
        _os.utime(path, (t, t))
    except OSError:
        pass


# ---------------------------------------------------------------------------- os shim
class SimPath:
    """os.path replacement: filesystem-touching predicates are seam calls."""

    def __getattr__(self, name: str) -> Any:
        return getattr(_os.path, name)

    # os.path.exists/isfile/isdir never raise: an OSError from stat() reads as False
    def exists(self, p):
        try:
            return _seam("stat", p, lambda: _os.path.exists(p))
        except OSError:
            return False

    def isfile(self, p):
        try:
            return _seam("stat", p, lambda: _os.path.isfile(p))
        except OSError:
            return False

    def isdir(self, p):
        try:
            return _seam("stat", p, lambda: _os.path.isdir(p))
        except OSError:
            return False

    def getsize(self, p):
        return _seam("stat", p, lambda: _os.path.getsize(p))

    def getmtime(self, p):
        return _seam("stat", p, lambda: _os.path.getmtime(p))


class SimOS:
    """Replacement for the `os` module object inside datashard modules."""

    def __init__(self):
        self.path = SimPath()

    def __getattr__(self, name: str) -> Any:
        return getattr(_os, name)

    # -- fd based
    def open(self, path, flags, mode=0o777, *a, **kw):
        sim = cur_sim()
        me = sim.me() if sim else None

        def do():
            existed = _os.path.lexists(path)
            fd = _os.open(path, flags, mode, *a, **kw)
            if me is not None:
                me.proc.fds[fd] = _os.fspath(path)
                if (flags & _os.O_CREAT) and not existed:
                    _touch_vtime(sim, path)
            return fd
        op = "create" if (flags & _os.O_CREAT) else "open"
        return _seam(op, path, do, {"flags": flags})

    def _fdpath(self, fd) -> str:
        a = cur_actor()
        if a is not None and fd in a.proc.fds:
            return a.proc.fds[fd]
        return f"<fd{fd}>"

    def write(self, fd, data):
        p = self._fdpath(fd)
        def short(d):
            # short write (ENOSPC / EDQUOT / RLIMIT_FSIZE reached mid-write, or a signal): the kernel accepts a PREFIX and
            # reports its length; POSIX callers must loop
            k = int(len(data) * d.get("frac", 0.5))
            k = max(0, min(k, len(data) - 1))
            cur_sim().probe("short_write")
            return _os.write(fd, bytes(data[:k])) if k else 0
        return _seam("write", p, lambda: _os.write(fd, data), {"fd": fd, "n": len(data)}, value_fault=short)

    def read(self, fd, n):
        p = self._fdpath(fd)
        return _seam("read", p, lambda: _os.read(fd, n), {"fd": fd})

    def fsync(self, fd):
        p = self._fdpath(fd)
        return _seam("fsync", p, lambda: None, {"fd": fd})   # recorded, not executed (tmpfs)

    def fdatasync(self, fd):
        return self.fsync(fd)

    def close(self, fd):
        p = self._fdpath(fd)
        sim = cur_sim()
        a = cur_actor()

        def do():
            try:
                return _os.close(fd)
            finally:
                if a is not None:
                    a.proc.fds.pop(fd, None)
                    ls = sim.extra.get("flocks")
                    if ls is not None:
                        for k, v in list(ls.items()):
                            if v == (a.proc.name, fd):
                                del ls[k]
        # On Linux close() always releases the descriptor, even when it reports EIO/EINTR: an injected
        # error on close is therefore delivered AFTER the real close.
        try:
            return _seam("close", p, do, {"fd": fd})
        except OSError:
            if a is not None and fd in a.proc.fds:
                try:
                    do()
                except OSError:
                    pass
            raise

    # -- path based
    def replace(self, src, dst, **kw):
        sim = cur_sim()

        def do():
            r = _os.replace(src, dst, **kw)
            if sim is not None:
                _touch_vtime(sim, dst)
            return r
        return _seam("replace", dst, do, {"src": _os.fspath(src)})

    def rename(self, src, dst, **kw):
        sim = cur_sim()

        def do():
            r = _os.rename(src, dst, **kw)
            if sim is not None:
                _touch_vtime(sim, dst)
            return r
        return _seam("replace", dst, do, {"src": _os.fspath(src)})

    def remove(self, p, **kw):
        return _seam("remove", p, lambda: _os.remove(p, **kw))

    def unlink(self, p, **kw):
        return _seam("remove", p, lambda: _os.unlink(p, **kw))

    def rmdir(self, p, **kw):
        return _seam("rmdir", p, lambda: _os.rmdir(p, **kw))

    def makedirs(self, p, mode=0o777, exist_ok=False):
        if exist_ok and _os.path.isdir(p):
            return None
        return _seam("mkdir", p, lambda: _os.makedirs(p, mode, exist_ok))

    def mkdir(self, p, mode=0o777, **kw):
        return _seam("mkdir", p, lambda: _os.mkdir(p, mode, **kw))

    def stat(self, p, **kw):
        return _seam("stat", p, lambda: _os.stat(p, **kw))

    def listdir(self, p="."):
        sim = cur_sim()

        def do():
            names = sorted(_os.listdir(p))
            a = cur_actor()
            if a is not None:
                a.rng_names.shuffle(names)
            return names
        return _seam("list", p, do)

    def scandir(self, p="."):
        # materialised: entries are only used for names/is_dir by callers we know of
        return _seam("list", p, lambda: list(_os.scandir(p)))

    def utime(self, p, *a, **kw):
        return _seam("utime", p, lambda: _os.utime(p, *a, **kw))

    def truncate(self, p, n):
        return _seam("truncate", p, lambda: _os.truncate(p, n))

    def walk(self, top, topdown=True, onerror=None, followlinks=False):
        """Per-directory seam calls; names sorted then permuted from the actor's stream."""
        a = cur_actor()
        if a is None:
            yield from _os.walk(top, topdown, onerror, followlinks)
            return
        stack = [_os.fspath(top)]
        while stack:
            d = stack.pop()

            def do(d=d):
                dirs, files = [], []
                try:
                    names = sorted(_os.listdir(d))
                except OSError as e:
                    if onerror is not None:
                        onerror(e)
                    return None
                a.rng_names.shuffle(names)
                for n in names:
                    full = _os.path.join(d, n)
                    try:
                        st = _os.lstat(full)
                    except OSError:
                        continue
                    if _stat.S_ISDIR(st.st_mode):
                        dirs.append(n)
                    elif _stat.S_ISLNK(st.st_mode) and _os.path.isdir(full):
                        dirs.append(n)
                    else:
                        files.append(n)
                return dirs, files
            try:
                r = _seam("list", d, do)
            except OSError as e:
                # os.walk ignores errors from scandir() unless onerror is given
                if onerror is not None:
                    onerror(e)
                continue
            if r is None:
                continue
            dirs, files = r
            yield d, dirs, files
            for n in reversed(dirs):
                full = _os.path.join(d, n)
                if followlinks or not _os.path.islink(full):
                    stack.append(full)


SIM_OS = SimOS()


# ---------------------------------------------------------------------------- open() shim
class SimFile:
    """Write-mode file proxy: write/flush/close are seam calls (so a non-atomic
    in-place publish is visible to a reader scheduled in between)."""

    def __init__(self, f, path, proc):
        self._f = f
        self._path = path
        self._proc = proc
        self._closed = False

    def _dsim_real_close(self):
        if not self._closed:
            self._closed = True
            try:
                self._f.close()
            except Exception:
                pass

    def write(self, data):
        n = len(data)
        if n >= 2 and cur_actor() is not None:
            # tear a write into two seam calls
            h = n // 2
            _seam("write", self._path, lambda: (self._f.write(data[:h]), self._f.flush()), {"n": h})
            _seam("write", self._path, lambda: (self._f.write(data[h:]), self._f.flush()), {"n": n - h})
            return n
        return _seam("write", self._path, lambda: (self._f.write(data), self._f.flush())[0], {"n": n})

    def flush(self):
        return self._f.flush()

    def fileno(self):
        return self._f.fileno()

    def close(self):
        def do():
            self._dsim_real_close()
            sim = cur_sim()
            if sim is not None:
                _touch_vtime(sim, self._path)
            if self in self._proc.files:
                self._proc.files.remove(self)
        return _seam("close", self._path, do)

    def __enter__(self):
        return self

    def __exit__(self, *a):
        self.close()

    def __getattr__(self, n):
        return getattr(self._f, n)


def sim_open(file, mode="r", *args, **kw):
    sim = cur_sim()
    a = sim.me() if sim is not None else None
    if a is None or isinstance(file, int):
        return _real_open(file, mode, *args, **kw)
    if any(c in mode for c in "wax+"):
        def do():
            existed = _os.path.lexists(file)
            f = _real_open(file, mode, *args, **kw)
            sf = SimFile(f, _os.fspath(file), a.proc)
            a.proc.files.append(sf)
            if not existed:
                _touch_vtime(sim, file)
            return sf
        return _seam("create", file, do, {"mode": mode})
    # read mode: open+read are one seam call (files are published atomically; the
    # writer's side is what is split into seam calls)
    return _seam("open", file, lambda: _real_open(file, mode, *args, **kw))


# ---------------------------------------------------------------------------- tempfile shim
class _NamedTemp:
    def __init__(self, fd, name, proc=None):
        self._fd = fd
        self.name = name
        self._closed = False
        self._proc = proc
        if proc is not None:
            proc.fds.pop(fd, None)      # owned by this object, closed exactly once
            proc.files.append(self)

    def _dsim_real_close(self):
        if not self._closed:
            self._closed = True
            try:
                _os.close(self._fd)
            except OSError:
                pass

    def close(self):
        self._dsim_real_close()
        if self._proc is not None and self in self._proc.files:
            self._proc.files.remove(self)

    def __del__(self):
        try:
            self.close()
        except Exception:
            pass

    def __enter__(self):
        return self

    def __exit__(self, *a):
        self.close()


class SimTempfile:
    def __getattr__(self, name):
        import tempfile
        return getattr(tempfile, name)

    @staticmethod
    def _rand(a) -> str:
        chars = "abcdefghijklmnopqrstuvwxyz0123456789_"
        return "".join(a.rng_names.choice(chars) for _ in range(8))

    def mkstemp(self, suffix=None, prefix=None, dir=None, text=False):
        import tempfile
        a = cur_actor()
        if a is None:
            return tempfile.mkstemp(suffix, prefix, dir, text)
        suffix = suffix or ""
        prefix = "tmp" if prefix is None else prefix
        d = dir if dir is not None else tempfile.gettempdir()
        while True:
            name = _os.path.join(d, prefix + self._rand(a) + suffix)
            if not _os.path.lexists(name):
                break
        fd = SIM_OS.open(name, _os.O_RDWR | _os.O_CREAT | _os.O_EXCL, 0o600)
        return fd, name

    def NamedTemporaryFile(self, mode="w+b", buffering=-1, encoding=None, newline=None, suffix=None,
                           prefix=None, dir=None, delete=True, **kw):
        import tempfile
        a = cur_actor()
        if a is None:
            return tempfile.NamedTemporaryFile(mode, buffering, encoding, newline, suffix, prefix, dir,
                                               delete, **kw)
        fd, name = self.mkstemp(suffix, prefix, dir)
        return _NamedTemp(fd, name, a.proc)


SIM_TEMPFILE = SimTempfile()


# ---------------------------------------------------------------------------- shutil shim (disk_utils)
class SimShutil:
    def __getattr__(self, name):
        return getattr(_shutil, name)

    def disk_usage(self, path):
        import collections
        U = collections.namedtuple("usage", "total used free")

        def do():
            return U(1 << 40, 1 << 30, (1 << 40) - (1 << 30))

        def vf(d):
            if d.get("mode") == "percent":
                return U(1 << 40, int((1 << 40) * 0.97), int((1 << 40) * 0.03))
            return U(1 << 40, (1 << 40) - 16, 16)
        return _seam("disk_usage", path, do, value_fault=vf, noyield=True)


SIM_SHUTIL = SimShutil()


# ---------------------------------------------------------------------------- fcntl shim
class SimFcntl:
    def __getattr__(self, name):
        return getattr(_real_fcntl, name)

    def flock(self, fd, flags):
        sim = cur_sim()
        a = sim.me() if sim is not None else None
        if a is None:
            return _real_fcntl.flock(fd, flags)
        path = a.proc.fds.get(fd, f"<fd{fd}>")
        un = bool(flags & _real_fcntl.LOCK_UN)

        def do():
            r = _real_fcntl.flock(fd, flags)     # real kernel call, non-blocking as the code asks
            ls = sim.extra.setdefault("flocks", {})
            try:
                ino = _os.fstat(fd).st_ino
            except OSError:
                ino = -1
            key = (path, ino)
            if un:
                if ls.get(key) == (a.proc.name, fd):
                    del ls[key]
            else:
                other = ls.get(key)
                if other is not None and other != (a.proc.name, fd):
                    sim.extra.setdefault("flock_overlaps", []).append(
                        {"path": relpath_of(sim, path), "holder": other[0], "second": a.proc.name,
                         "step": sim.gstep})
                ls[key] = (a.proc.name, fd)
                sim.probe("flock_acquired")
            return r
        try:
            return _seam("unflock" if un else "flock", path, do, {"fd": fd})
        except OSError as e:
            if not un and e.errno in (errno.EAGAIN, errno.EACCES):
                sim.probe("flock_contended")
            raise


SIM_FCNTL = SimFcntl()


# ---------------------------------------------------------------------------- time / datetime / uuid / random
def _d_time():
    a = cur_actor()
    if a is None:
        return _real_time()
    return a.sim.time_for(a)


def _d_monotonic():
    a = cur_actor()
    if a is None:
        return _real_monotonic()
    return a.sim.mono_for(a)


def _d_sleep(dt):
    a = cur_actor()
    if a is None:
        return _real_sleep(dt)
    try:
        mod = sys._getframe(1).f_globals.get("__name__", "")
    except Exception:
        mod = ""
    if mod == "datashard.transaction":
        a.sim.probe("commit_retry")
    elif mod == "datashard.s3_consistency":
        a.sim.probe("s3_retry_sleep")
    elif mod == "datashard.file_lock":
        a.sim.probe("flock_poll_sleep")
    a.sim.sleep(dt)


class _DTMeta(type):
    def __instancecheck__(cls, inst):
        return isinstance(inst, _real_datetime)

    def __subclasscheck__(cls, sub):
        return issubclass(sub, _real_datetime)


class SimDateTime(_real_datetime, metaclass=_DTMeta):
    @classmethod
    def now(cls, tz=None):
        a = cur_actor()
        if a is None:
            return _real_datetime.now(tz)
        return _real_datetime.fromtimestamp(a.sim.time_for(a), tz)

    @classmethod
    def utcnow(cls):
        a = cur_actor()
        if a is None:
            return _real_datetime.utcnow()
        return _real_datetime.utcfromtimestamp(a.sim.time_for(a))

    @classmethod
    def today(cls):
        return cls.now()


def _d_uuid4():
    a = cur_actor()
    if a is None:
        return _real_uuid4()
    return _uuid_mod.UUID(int=a.rng_names.getrandbits(128), version=4)


def _d_uniform(x, y):
    a = cur_actor()
    if a is None:
        return _real_uniform(x, y)
    return a.rng_names.uniform(x, y)


def _d_random():
    a = cur_actor()
    if a is None:
        return _real_random()
    return a.rng_names.random()


# ---------------------------------------------------------------------------- threading shim
class SimRLock:
    def __init__(self):
        self._owner = None
        self._count = 0
        self._real = _threading.RLock()

    def acquire(self, blocking=True, timeout=-1):
        a = cur_actor()
        if a is None:
            return self._real.acquire(blocking, timeout)
        sim = a.sim
        first = True
        while True:
            if self._owner is None or self._owner is a:
                self._owner = a
                self._count += 1
                return True
            if self._owner.state == core.DONE or not self._owner.proc.alive:
                # owner died holding it (crashed process): same-process waiters die too; a lock
                # shared across simulated processes does not exist (handles are per process)
                self._owner = None
                self._count = 0
                continue
            if not blocking:
                return False
            if first:
                sim.probe("rlock_contended")
                first = False
            if timeout is not None and timeout >= 0:
                if not sim.block_until(self, timeout):
                    return False
            else:
                sim.block_on(self)

    def release(self):
        a = cur_actor()
        if a is None:
            return self._real.release()
        if self._owner is not a:
            if a.sim.tearing_down or not a.proc.alive:
                return
            raise RuntimeError("cannot release un-acquired lock")
        self._count -= 1
        if self._count == 0:
            self._owner = None
            a.sim.unblock_all(self)

    def __enter__(self):
        self.acquire()
        return self

    def __exit__(self, *a):
        try:
            self.release()
        except RuntimeError:
            pass

    def locked(self):
        return self._owner is not None


class SimLock(SimRLock):
    def acquire(self, blocking=True, timeout=-1):
        a = cur_actor()
        if a is not None and self._owner is a:
            # non-reentrant: would self-deadlock; surface as harness-visible deadlock
            a.sim.block_on(self)
        return super().acquire(blocking, timeout)


class SimEvent:
    def __init__(self):
        self._flag = False

    def is_set(self):
        return self._flag

    def set(self):
        self._flag = True
        s = cur_sim()
        if s is not None:
            s.unblock_all(self)

    def clear(self):
        self._flag = False

    def wait(self, timeout=None):
        a = cur_actor()
        if a is None:
            return self._flag
        if self._flag:
            return True
        sim = a.sim
        if sim.tearing_down:
            raise core.SimKilled()
        sim._count_step(a)
        sim.block_until(self, timeout)
        return self._flag


class SimThread:
    def __init__(self, group=None, target=None, name=None, args=(), kwargs=None, daemon=None):
        self._target = target
        self._args = args
        self._kwargs = kwargs or {}
        self.name = name or "thread"
        self.daemon = bool(daemon)
        self._actor = None
        self._real = None

    def start(self):
        a = cur_actor()
        if a is None:
            self._real = _threading.Thread(target=self._target, args=self._args, kwargs=self._kwargs,
                                           name=self.name, daemon=self.daemon)
            self._real.start()
            return
        n = a.sim.extra.setdefault("spawn_counts", {})
        n[a.name] = n.get(a.name, 0) + 1
        nm = f"{a.name}/t{n[a.name]}"
        self._actor = a.sim.spawn(a.proc, nm, lambda: self._target(*self._args, **self._kwargs),
                                  daemon=True)

    def is_alive(self):
        if self._real is not None:
            return self._real.is_alive()
        return self._actor is not None and self._actor.state != core.DONE

    def join(self, timeout=None):
        if self._real is not None:
            return self._real.join(timeout)
        t = self._actor
        a = cur_actor()
        if t is None or a is None or t.state == core.DONE:
            return
        a.sim._count_step(a)
        a.sim.block_until(t, timeout)


class SimThreading:
    RLock = SimRLock
    Lock = SimLock
    Event = SimEvent
    Thread = SimThread

    def __getattr__(self, name):
        return getattr(_threading, name)


SIM_THREADING = SimThreading()


# ---------------------------------------------------------------------------- thread pool stub
import concurrent.futures as _cf

_RealTPE = _cf.ThreadPoolExecutor


class SimExecutor:
    """Stub for ThreadPoolExecutor inside actors: tasks run as child actors of the caller
    (scheduler-chosen completion order), results returned in input order."""

    def __new__(cls, *a, **kw):
        if cur_actor() is None:
            return _RealTPE(*a, **kw)
        return super().__new__(cls)

    def __init__(self, max_workers=None, *a, **kw):
        self.max_workers = max_workers

    def __enter__(self):
        return self

    def __exit__(self, *a):
        return False

    def shutdown(self, *a, **kw):
        pass

    def map(self, fn, *iterables):
        a = cur_actor()
        items = list(zip(*iterables))
        sim = a.sim
        slots = [None] * len(items)
        kids = []
        n = sim.extra.setdefault("spawn_counts", {})
        for i, args in enumerate(items):
            def body(i=i, args=args):
                try:
                    slots[i] = ("ok", fn(*args))
                except (core.SimDead, core.SimKilled):
                    raise
                except BaseException as e:
                    slots[i] = ("err", e)
            n[a.name] = n.get(a.name, 0) + 1
            kids.append(sim.spawn(a.proc, f"{a.name}/w{n[a.name]}", body, daemon=False))
        for k in kids:
            while k.state != core.DONE:
                sim._count_step(a)
                sim.block_until(k, None)
        sim.probe("pool_map")
        out = []
        for s in slots:
            if s is None:
                raise core.SimDead()
            if s[0] == "err":
                raise s[1]
            out.append(s[1])
        return iter(out)

    def submit(self, fn, *args, **kw):
        raise NotImplementedError("SimExecutor.submit")


# ---------------------------------------------------------------------------- install
_installed = False


def install() -> None:
    """Install every seam (idempotent, for the life of this OS process)."""
    global _installed
    if _installed:
        return
    _installed = True
    import gc
    import logging
    logging.disable(logging.CRITICAL)
    # The cyclic collector runs __del__ methods (FileLock.__del__ releases a lock = seam calls) at allocation-count-
    # chosen instants in whichever thread happens to run: a schedule input the simulator does not own. It stays off
    # for the life of the process; scenarios collect explicitly between runs (common.fresh_scratch), outside any Sim.
    gc.disable()

    import datashard  # noqa
    from datashard import (data_operations, data_structures, disk_utils, file_lock, file_manager,
                           garbage_collector, integrity, lock_provider, metadata_manager,
                           s3_consistency, snapshot_manager, storage_backend, transaction)

    import importlib
    import pkgutil
    mods = []
    for mi in pkgutil.iter_modules(datashard.__path__):
        if mi.name in ("__main__",):
            continue
        try:
            mods.append(importlib.import_module(f"datashard.{mi.name}"))
        except Exception:
            pass
    # every datashard module gets the shims for whatever it imports at module level, so a source change that adds
    # `import threading` / `import os` / `import tempfile` to another module is still under the simulator's control
    for m in mods:
        if hasattr(m, "os") and getattr(m, "os") is _os:
            m.os = SIM_OS
        if hasattr(m, "tempfile"):
            m.tempfile = SIM_TEMPFILE
        if hasattr(m, "shutil") and getattr(m, "shutil") is _shutil:
            m.shutil = SIM_SHUTIL
        if hasattr(m, "threading") and getattr(m, "threading") is _threading:
            m.threading = SIM_THREADING
        if hasattr(m, "fcntl") and getattr(m, "fcntl") is _real_fcntl:
            m.fcntl = SIM_FCNTL
        m.open = sim_open
        # module-level lock objects created at import time (before this function ran) are real locks: an actor
        # parked at a seam call while holding one would block every other actor's real thread. Swap them.
        for gname, gval in list(vars(m).items()):
            tname = type(gval).__name__
            if type(gval).__module__ == "_thread" and tname in ("lock", "RLock"):
                setattr(m, gname, SimLock() if tname == "lock" else SimRLock())
    # listing anomaly hook (F9): a fault {"kind": "value", "op": "list_result", "cls": <class of the prefix>}
    # makes the backend's list_files() return an extra, untrusted entry at a chosen position
    def _wrap_list(klass):
        orig = klass.list_files

        def list_files(self, prefix):
            res = orig(self, prefix)
            sim = cur_sim()
            if sim is None or sim.me() is None:
                return res
            cls = classify_rel(prefix.strip("/"))

            def vf(d):
                ent = d.get("entry", "")
                if ent.startswith("RAISE:"):
                    # the layer below the backend (overlay / network filesystem, a third-party StorageBackend) answers
                    # the listing of an EXISTING directory with an error of this class
                    raise {"FileNotFoundError": FileNotFoundError, "NotADirectoryError": NotADirectoryError,
                           "PermissionError": PermissionError}[ent[6:]](f"injected {ent[6:]} from list_files({prefix!r})")
                out = list(res)
                pos = d.get("pos", "end")
                i = 0 if pos == "start" else (len(out) // 2 if pos == "mid" else len(out))
                out.insert(i, d.get("entry", "../../outside/file"))
                return out
            return sim.seam("list_result", cls, prefix.strip("/"), lambda: res, value_fault=vf, noyield=True)
        klass.list_files = list_files
    _wrap_list(storage_backend.LocalStorageBackend)
    _wrap_list(storage_backend.S3StorageBackend)

    file_lock.fcntl = SIM_FCNTL
    _orig_init = file_lock.FileLock.__init__

    def _fl_init(self, *a, **kw):
        _orig_init(self, *a, **kw)
        act = cur_actor()
        if act is not None:
            act.proc.flock_objs.append(self)
    file_lock.FileLock.__init__ = _fl_init
    for m in (metadata_manager, snapshot_manager, file_manager, data_structures):
        m.datetime = SimDateTime
    _dt_mod.datetime = SimDateTime
    _time_mod.time = _d_time
    _time_mod.monotonic = _d_monotonic
    _time_mod.sleep = _d_sleep
    _uuid_mod.uuid4 = _d_uuid4
    _random_mod.uniform = _d_uniform
    _random_mod.random = _d_random
    _cf.ThreadPoolExecutor = SimExecutor
    import concurrent.futures.thread as _cft
    _cft.ThreadPoolExecutor = SimExecutor
