"""Reference model + step-wise refinement at the commit point.

refine(P, N, res) answers: is the metadata version N (just made current by a pointer
flip) exactly what the committing operation `res` produces when applied to the version
P that was current immediately before the flip?  Identifiers and timestamps are taken
from the observed file; everything else must match.  A commit built on a stale base
cannot pass: P contains a snapshot (unique id) that the stale base lacks.
"""
from __future__ import annotations

from typing import Any, Dict, List, Optional, Tuple

from .ir import Snap, TableState, row_key

RETENTION = "datashard.snapshot.retention-count"
MLOG_MAX = "write.metadata.previous-versions-max"

Problem = Tuple[str, str]


def _nothing(p) -> bool:
    return p is None or p == -1


def _ancestor_in(parent_of: Dict[int, Any], start, kept: set):
    p = start
    seen = set()
    while not _nothing(p) and p not in kept:
        if p in seen:
            return None
        seen.add(p)
        p = parent_of.get(p)
    return None if _nothing(p) else p


def _retention(props: dict) -> Optional[int]:
    raw = props.get(RETENTION)
    if raw is None:
        return None
    try:
        r = int(raw)
    except (TypeError, ValueError):
        return None
    return r if r >= 1 else None


def expected_kept(P: TableState, new: Optional[Snap], res: dict, props: dict) -> Tuple[Optional[set], bool]:
    """Set of snapshot ids expected after the commit; second value: exact (False when
    timestamp ties at a retention boundary make more than one answer legitimate)."""
    ids = [s.id for s in P.snaps]
    ts = {s.id: s.ts for s in P.snaps}
    cur = P.current_id
    if new is not None:
        ids.append(new.id)
        ts[new.id] = new.ts
        cur = new.id
    if "delete_snapshot" in res:
        ids = [i for i in ids if i != res["delete_snapshot"]]
    if "expire" in res:
        c = res["expire"]
        ids = [i for i in ids if ts[i] >= c or i == cur]
    exact = True
    r = _retention(props)
    if new is not None and r is not None and len(ids) > r:
        order = sorted(ids, key=lambda i: ts[i])
        kept = order[-r:]
        boundary = ts[order[-r]]
        if len(order) > r and ts[order[-r - 1]] == boundary:
            exact = False
        if cur not in kept:
            kept.append(cur)
        ids = [i for i in order if i in kept]
    return set(ids), exact


def retention_alternatives(P: TableState, new: Optional[Snap], res: dict, props: dict,
                           commit_order: Optional[List[int]]) -> List[set]:
    """Other snapshot sets a retention-count of r may legitimately leave.  No listed property says WHICH r snapshots
    the retention keeps (only that the current one survives): 'the r newest by timestamp' (what expected_kept models)
    and 'the r most recently committed' are both accepted - they differ only under skewed clocks."""
    r = _retention(props)
    if new is None or r is None:
        return []
    ids = [s.id for s in P.snaps] + [new.id]
    if "delete_snapshot" in res:
        ids = [i for i in ids if i != res["delete_snapshot"]]
    if len(ids) <= r:
        return []
    order = [i for i in (commit_order or []) if i in ids and i != new.id] + [new.id]
    order = [i for i in ids if i not in order] + order
    return [set(order[-r:]) | {new.id}]


def refine(P: Optional[TableState], N: TableState, res: dict, commit_order: Optional[List[int]] = None
           ) -> List[Problem]:
    """Problems (clause, message) of N as the successor of P under operation `res`."""
    out: List[Problem] = []
    if res.get("init"):
        if N.snaps or not _nothing(N.current_id):
            out.append(("R.init", f"fresh table has snapshots {[s.id for s in N.snaps]} current={N.current_id}"))
        return out
    if P is None:
        out.append(("R.base", "no readable predecessor version"))
        return out
    pids = {s.id for s in P.snaps}
    nids = {s.id for s in N.snaps}
    fresh = [s for s in N.snaps if s.id not in pids]
    file_op = bool(res.get("appends")) or bool(res.get("deletes")) or res.get("file_op")
    new: Optional[Snap] = None
    if file_op:
        if len(fresh) != 1:
            out.append(("R.new_snapshot", f"expected exactly one new snapshot, found {len(fresh)}"))
            return out
        new = fresh[0]
    elif fresh:
        out.append(("R.new_snapshot", f"metadata-only commit introduced snapshots {[s.id for s in fresh]}"))
        return out

    # identity
    if N.uuid != P.uuid:
        out.append(("R.identity", f"table uuid changed {P.uuid} -> {N.uuid}"))
    if N.schema_fields != P.schema_fields or N.current_schema_id != P.current_schema_id:
        out.append(("R.identity", "schema changed by a data/metadata commit"))
    exp_props = dict(P.props)
    if "set_prop" in res:
        exp_props[res["set_prop"][0]] = res["set_prop"][1]
    if N.props != exp_props:
        out.append(("R.identity", f"properties {N.props} != expected {exp_props}"))

    # snapshot set: the lost-update / duplication oracle
    kept, exact = expected_kept(P, new, res, exp_props)
    if exact:
        if nids != kept and nids not in retention_alternatives(P, new, res, exp_props, commit_order):
            lost = sorted(kept - nids)
            extra = sorted(nids - kept)
            out.append(("R.snapshot_set", f"snapshots after commit differ from apply(base, op): "
                                          f"missing={lost} unexpected={extra}"))
    else:
        if not nids <= (pids | ({new.id} if new else set())) or len(nids) != len(kept):
            out.append(("R.snapshot_set", "retention produced a snapshot set of the wrong size/content"))

    # current pointer
    if new is not None:
        if N.current_id != new.id:
            out.append(("R.current", f"current {N.current_id} is not the committed snapshot {new.id}"))
    elif "delete_snapshot" in res and res["delete_snapshot"] == P.current_id:
        surv = [i for i in (commit_order or []) if i in nids]
        if not nids:
            if not _nothing(N.current_id):
                out.append(("R.current", f"all snapshots deleted but current={N.current_id}"))
        elif commit_order is not None and surv:
            if N.current_id != surv[-1]:
                out.append(("R.current_recency", f"current {N.current_id} after deleting the current snapshot "
                                                 f"is not the most recently committed survivor {surv[-1]}"))
        elif N.current_id not in nids:
            out.append(("R.current", f"current {N.current_id} not among retained {sorted(nids)}"))
    else:
        if N.current_id != P.current_id:
            out.append(("R.current", f"current changed {P.current_id} -> {N.current_id} by a metadata-only op"))
    if not _nothing(N.current_id) and N.current_id not in nids:
        out.append(("R.current_dangling", f"current {N.current_id} not among retained snapshots"))

    # sequence numbers
    # (stated: strictly increasing in commit order, never above the table's last sequence number, which never decreases -
    #  not "+1": the step width is the implementation's business)
    if new is not None:
        if new.seq is None or new.seq <= P.last_seq:
            out.append(("R.seq", f"new sequence number {new.seq} is not above the base's last sequence number {P.last_seq}"))
        if N.last_seq < max(P.last_seq, new.seq if new.seq is not None else -1):
            out.append(("R.seq", f"last_sequence_number {N.last_seq} after new seq {new.seq} (base {P.last_seq})"))
    else:
        if N.last_seq < P.last_seq:
            out.append(("R.seq", f"last_sequence_number decreased {P.last_seq} -> {N.last_seq}"))

    # parents: true nearest surviving ancestor or nothing
    parent_of = {s.id: s.parent for s in P.snaps}
    if new is not None:
        parent_of[new.id] = P.current_id
    # (stated: "a retained true ancestor or nothing" - the NEAREST one is what the code picks and is not demanded)
    for s in N.snaps:
        got = None if _nothing(s.parent) else s.parent
        if got is None:
            continue
        anc, p_, seen = set(), parent_of.get(s.id), set()
        while not _nothing(p_) and p_ not in seen:
            seen.add(p_)
            anc.add(p_)
            p_ = parent_of.get(p_)
        if got not in nids or got not in anc:
            out.append(("R.parent", f"snapshot {s.id}: parent {s.parent} is not a retained true ancestor "
                                    f"(true ancestors {sorted(anc)}, retained {sorted(nids)})"))

    # existing snapshots are immutable
    for s in N.snaps:
        o = P.snap(s.id)
        if o is None:
            continue
        if (s.ts, s.seq, s.mlist, s.op, s.schema_id) != (o.ts, o.seq, o.mlist, o.op, o.schema_id):
            out.append(("R.immutable", f"snapshot {s.id} fields changed"))
        if s.files.keys() != o.files.keys() or any(s.files[k].sha != o.files[k].sha for k in s.files):
            out.append(("R.immutable", f"snapshot {s.id} file set / content changed"))

    # file set and rows of the new snapshot
    if new is not None:
        base_files = dict(P.current().files) if P.current() is not None else {}
        deletes = {d.lstrip("/") for d in res.get("deletes", [])}
        carried = {p for p in base_files if p not in deletes}
        added = {p for p in new.files if p not in base_files}
        gone = carried - set(new.files)
        if gone:
            out.append(("R.files_lost", f"files of the base snapshot missing from the new one: {sorted(gone)}"))
        undeleted = deletes & set(new.files) & set(base_files)
        if undeleted:
            out.append(("R.files_delete", f"deleted files still present: {sorted(undeleted)}"))
        want_rows = []
        for part in res.get("appends", []):
            want_rows.extend(row_key(r) for r in part)
        got_rows = []
        for p in added:
            got_rows.extend(new.files[p].rows)
        if sorted(want_rows, key=repr) != sorted(got_rows, key=repr):
            out.append(("R.rows", f"rows added by the commit differ from the rows supplied "
                                  f"(supplied {len(want_rows)}, added {len(got_rows)} in {len(added)} files)"))
        # (how many files an append is written as is not stated anywhere: only the rows count)
        for p in carried & set(new.files):
            a, b = base_files[p], new.files[p]
            if a.sha != b.sha:
                out.append(("R.immutable", f"carried file {p} content changed"))
            if a.entry_snapshot_id != b.entry_snapshot_id or a.entry_seq != b.entry_seq:
                out.append(("R.carry", f"carried file {p}: adding snapshot/sequence "
                                       f"({a.entry_snapshot_id},{a.entry_seq}) -> ({b.entry_snapshot_id},{b.entry_seq})"))
        for p in added:
            f = new.files[p]
            if f.entry_snapshot_id != new.id or f.entry_seq != new.seq:
                out.append(("R.carry", f"added file {p} stamped ({f.entry_snapshot_id},{f.entry_seq}) "
                                       f"not ({new.id},{new.seq})"))
        # (the snapshot's operation LABEL is not part of any listed property and is deliberately not checked)

    # snapshot log: retained only, commit order
    exp_log = [sid for (_t, sid) in P.snapshot_log if sid in nids]
    if new is not None and new.id in nids:
        exp_log.append(new.id)
    got_log = [sid for (_t, sid) in N.snapshot_log]
    if got_log != exp_log:
        out.append(("R.log", f"snapshot log {got_log} != expected {exp_log}"))

    # metadata log
    if P.pointer is not None:
        exp_ml = list(P.metadata_log)
        entry = {"timestamp-ms": P.last_updated_ms, "metadata-file": f"metadata/{P.pointer}"}
        if not (exp_ml and exp_ml[-1].get("metadata-file") == entry["metadata-file"]):
            exp_ml.append(entry)
        try:
            mx = int(exp_props.get(MLOG_MAX)) if exp_props.get(MLOG_MAX) is not None else 100
        except (TypeError, ValueError):
            mx = 100
        if mx >= 1 and len(exp_ml) > mx:
            exp_ml = exp_ml[-mx:]
        names = lambda log: [e.get("metadata-file") for e in log]     # noqa: E731  (entry timestamps are not stated)
        if mx < 1 and names(N.metadata_log) == names(exp_ml)[len(exp_ml) - len(N.metadata_log):] \
                and len(N.metadata_log) <= len(exp_ml):
            pass    # a bound of 0 / -1 configures nothing meaningful: any trimming of the true log is within it
        elif names(N.metadata_log) != names(exp_ml):
            out.append(("R.mlog", f"metadata log has {len(N.metadata_log)} entries "
                                  f"{[e.get('metadata-file') for e in N.metadata_log][-3:]}, expected {len(exp_ml)} "
                                  f"{[e.get('metadata-file') for e in exp_ml][-3:]}"))
    return out


def wellformed(N: TableState, commit_order: Optional[List[int]] = None) -> List[Problem]:
    """State invariants of C15 that need no predecessor."""
    out: List[Problem] = []
    ids = [s.id for s in N.snaps]
    if len(set(ids)) != len(ids):
        out.append(("W.dup_snapshot", f"duplicate snapshot ids {ids}"))
    if not _nothing(N.current_id) and N.current_id not in ids:
        out.append(("W.current", f"current {N.current_id} not retained"))
    if _nothing(N.current_id) and ids:
        out.append(("W.current", f"snapshots {ids} retained but no current snapshot"))
    for s in N.snaps:
        if not _nothing(s.parent) and s.parent not in ids:
            out.append(("W.parent", f"snapshot {s.id} has dangling parent {s.parent}"))
        if s.seq is not None and s.seq > N.last_seq:
            out.append(("W.seq", f"snapshot {s.id} seq {s.seq} > last_sequence_number {N.last_seq}"))
    if commit_order is not None:
        order = [i for i in commit_order if i in set(ids)]
        seqs = [N.snap(i).seq for i in order]
        if any(b is None or a is None or b <= a for a, b in zip(seqs, seqs[1:])):
            out.append(("W.seq_order", f"sequence numbers not strictly increasing in commit order: {seqs}"))
        log = [sid for (_t, sid) in N.snapshot_log]
        if log != [i for i in order if i in set(log)] or not set(log) <= set(ids):
            out.append(("W.log", f"snapshot log {log} not retained-only in commit order {order}"))
    return out
