"""Independent reader: reads a DataShard table without using any datashard code.

Trusted base: json, fastavro, pyarrow.parquet, hashlib.  Works over a FileView
(real directory, fake-S3 store, or a power-loss image).  Never goes through a seam.
"""
from __future__ import annotations

import hashlib
import io
import json
import os
import re
from dataclasses import dataclass, field
from typing import Any, Dict, List, Optional, Tuple

import fastavro
import pyarrow.parquet as pq

HINT = "metadata.version-hint.text"
_META_RE = re.compile(r"^v(\d+)(?:-[0-9a-f]{8})?\.metadata\.json$")


class IRError(Exception):
    def __init__(self, kind: str, path: str, msg: str = ""):
        super().__init__(f"{kind}:{path}:{msg}")
        self.kind = kind
        self.path = path


# ---------------------------------------------------------------------------- views
class LocalView:
    def __init__(self, root: str):
        self.root = os.path.realpath(root)

    def _p(self, rel: str) -> str:
        return os.path.join(self.root, rel.lstrip("/"))

    @staticmethod
    def canon(rel: str) -> str:
        import posixpath
        return posixpath.normpath(rel.lstrip("/"))

    def read(self, rel: str) -> bytes:
        with open(self._p(rel), "rb") as f:
            return f.read()

    def exists(self, rel: str) -> bool:
        return os.path.isfile(self._p(rel))

    def list(self, prefix: str = "") -> List[str]:
        top = self._p(prefix) if prefix else self.root
        out = []
        if not os.path.isdir(top):
            return out
        for r, _d, fs in os.walk(top):
            for f in fs:
                out.append(os.path.relpath(os.path.join(r, f), self.root))
        return sorted(out)

    def mtime(self, rel: str) -> float:
        return os.path.getmtime(self._p(rel))


class S3View:
    def __init__(self, store, bucket: str, prefix: str):
        self.store = store
        self.bucket = bucket
        self.prefix = prefix.strip("/")

    def _k(self, rel: str) -> str:
        rel = rel.lstrip("/")
        return f"{self.prefix}/{rel}" if self.prefix else rel

    def read(self, rel: str) -> bytes:
        o = self.store.bucket(self.bucket).get(self._k(rel))
        if o is None:
            raise FileNotFoundError(rel)
        return o.body

    def exists(self, rel: str) -> bool:
        return self._k(rel) in self.store.bucket(self.bucket)

    def list(self, prefix: str = "") -> List[str]:
        base = (self.prefix + "/") if self.prefix else ""
        want = base + (prefix.rstrip("/") + "/" if prefix else "")
        return sorted(k[len(base):] for k in self.store.bucket(self.bucket) if k.startswith(want))

    def mtime(self, rel: str) -> float:
        return self.store.bucket(self.bucket)[self._k(rel)].mtime


class ImageView:
    canon = staticmethod(LocalView.canon)    # images are taken of local tables

    def __init__(self, files: Dict[str, bytes]):
        self.files = files

    def read(self, rel: str) -> bytes:
        rel = rel.lstrip("/")
        if rel not in self.files:
            raise FileNotFoundError(rel)
        return self.files[rel]

    def exists(self, rel: str) -> bool:
        return rel.lstrip("/") in self.files

    def list(self, prefix: str = "") -> List[str]:
        p = prefix.rstrip("/") + "/" if prefix else ""
        return sorted(k for k in self.files if k.startswith(p))

    def mtime(self, rel: str) -> float:
        return 0.0


# ---------------------------------------------------------------------------- state
@dataclass
class FileInfo:
    path: str                 # normalised, no leading slash
    rows: Tuple               # sorted tuple of row tuples (sorted items)
    nrows: int
    status: int
    entry_snapshot_id: Optional[int]
    entry_seq: Optional[int]
    checksum: Optional[str]
    sha: str                  # sha256 of the parquet bytes
    record_count: int


@dataclass
class Snap:
    id: int
    parent: Optional[int]
    seq: Optional[int]
    ts: int
    mlist: str
    op: Optional[str]
    schema_id: Optional[int]
    manifests: List[str] = field(default_factory=list)
    files: Dict[str, FileInfo] = field(default_factory=dict)

    def rows(self) -> Tuple:
        out = []
        for f in self.files.values():
            out.extend(f.rows)
        return tuple(sorted(out, key=repr))


@dataclass
class TableState:
    pointer: Optional[str]
    version: Optional[int]
    raw: dict
    uuid: str
    schema_fields: list
    current_schema_id: int
    props: dict
    current_id: Optional[int]
    snaps: List[Snap]
    snapshot_log: List[Tuple[int, int]]
    metadata_log: list
    last_seq: int
    last_updated_ms: int

    def snap(self, sid) -> Optional[Snap]:
        for s in self.snaps:
            if s.id == sid:
                return s
        return None

    def current(self) -> Optional[Snap]:
        if self.current_id in (None, -1):
            return None
        return self.snap(self.current_id)

    def current_rows(self) -> Tuple:
        c = self.current()
        return c.rows() if c else ()

    def reachable(self) -> Dict[str, set]:
        data, mans, lists = set(), set(), set()
        for s in self.snaps:
            lists.add(s.mlist)
            mans.update(s.manifests)
            data.update(s.files.keys())
        return {"data": data, "manifests": mans, "lists": lists}


def norm(p: str) -> str:
    return p.lstrip("/")


def parse_hint(content: bytes) -> Optional[Tuple[int, str]]:
    try:
        t = content.decode("utf-8").strip()
    except UnicodeDecodeError:
        return None
    if not t:
        return None
    if t.isascii() and t.isdigit():
        try:
            return int(t), f"v{t}.metadata.json"
        except ValueError:      # more digits than int() converts
            return None
    m = _META_RE.match(t)
    if m and t.isascii():
        try:
            return int(m.group(1)), t
        except ValueError:
            return None
    return None


def row_key(r: dict) -> tuple:
    # an absent optional field and an explicit None are the same row
    return tuple(sorted(((k, _nv(v)) for k, v in r.items() if v is not None), key=lambda kv: kv[0]))


def _nv(v: Any) -> Any:
    if isinstance(v, float) and v != v:
        return "NaN"
    if isinstance(v, (list, dict)):
        return repr(v)
    return v


class Reader:
    """Caches parsed immutable files by content hash."""

    def __init__(self):
        self._mlist: Dict[str, list] = {}
        self._man: Dict[str, list] = {}
        self._pq: Dict[str, Tuple[Tuple, int]] = {}

    def _read(self, view, rel: str, what: str) -> bytes:
        try:
            return view.read(rel)
        except (FileNotFoundError, KeyError, IsADirectoryError, NotADirectoryError):
            raise IRError("missing", rel, what)

    def manifest_list(self, view, rel: str) -> list:
        b = self._read(view, rel, "manifest list")
        h = hashlib.sha1(b).hexdigest()
        if h not in self._mlist:
            try:
                recs = list(fastavro.reader(io.BytesIO(b)))
            except Exception as e:
                raise IRError("unparseable", rel, f"manifest list: {e!r}")
            self._mlist[h] = recs
        return self._mlist[h]

    def manifest(self, view, rel: str) -> list:
        b = self._read(view, rel, "manifest")
        h = hashlib.sha1(b).hexdigest()
        if h not in self._man:
            try:
                recs = list(fastavro.reader(io.BytesIO(b)))
            except Exception as e:
                raise IRError("unparseable", rel, f"manifest: {e!r}")
            self._man[h] = recs
        return self._man[h]

    def parquet_rows(self, view, rel: str) -> Tuple[Tuple, int, str]:
        b = self._read(view, rel, "data file")
        h = hashlib.sha256(b).hexdigest()
        if h not in self._pq:
            try:
                t = pq.read_table(io.BytesIO(b))
                rows = tuple(sorted((row_key(r) for r in t.to_pylist()), key=repr))
            except Exception as e:
                raise IRError("unparseable", rel, f"parquet: {e!r}")
            self._pq[h] = (rows, t.num_rows)
        rows, n = self._pq[h]
        return rows, n, h

    # ------------------------------------------------------------------
    def pointer(self, view) -> Optional[Tuple[int, str]]:
        try:
            b = view.read(HINT)
        except (FileNotFoundError, KeyError):
            return None
        return parse_hint(b)

    def metadata_raw(self, view, filename: str) -> dict:
        rel = f"metadata/{filename}"
        b = self._read(view, rel, "metadata")
        try:
            d = json.loads(b.decode("utf-8"))
            if not isinstance(d, dict) or "snapshots" not in d:
                raise ValueError("not a metadata object")
            return d
        except Exception as e:
            raise IRError("unparseable", rel, f"metadata: {e!r}")

    def state_of(self, view, filename: str, version: Optional[int] = None, deep: bool = True,
                 rows: bool = True) -> TableState:
        d = self.metadata_raw(view, filename)
        snaps = []
        for sd in d["snapshots"]:
            s = Snap(id=sd["snapshot_id"], parent=sd.get("parent_snapshot_id"),
                     seq=sd.get("sequence_number"), ts=sd["timestamp_ms"], mlist=norm(sd["manifest_list"]),
                     op=sd.get("operation"), schema_id=sd.get("schema_id"))
            if deep:
                self.fill_snapshot(view, s, rows)
            snaps.append(s)
        schema_fields = []
        for sc in d.get("schemas", []):
            if sc.get("schema_id") == d.get("current_schema_id"):
                schema_fields = sc.get("fields", [])
        return TableState(pointer=filename, version=version, raw=d, uuid=d["table_uuid"],
                          schema_fields=schema_fields, current_schema_id=d.get("current_schema_id"),
                          props=dict(d.get("properties", {})), current_id=d.get("current_snapshot_id"),
                          snaps=snaps,
                          snapshot_log=[(e["timestamp_ms"], e["snapshot_id"]) for e in d.get("snapshot_log", [])],
                          metadata_log=list(d.get("metadata_log", [])),
                          last_seq=d.get("last_sequence_number", 0),
                          last_updated_ms=d.get("last_updated_ms", 0))

    def fill_snapshot(self, view, s: Snap, rows: bool = True) -> None:
        s.manifests = []
        s.files = {}
        for mrec in self.manifest_list(view, s.mlist):
            mp = norm(mrec["manifest_path"])
            s.manifests.append(mp)
            for e in self.manifest(view, mp):
                df = e["data_file"]
                # one FILE has one key: a file system resolves 'data//f', 'data/./f', 'data/sub/../f' to the same file (and
                # the library's local backend accepts them); object-store keys are literal
                p = getattr(view, "canon", norm)(df["file_path"])
                if p in s.files:
                    continue
                if rows:
                    r, n, h = self.parquet_rows(view, p)
                else:
                    if not view.exists(p):
                        raise IRError("missing", p, "data file")
                    r, n, h = (), df["record_count"], ""
                seq = e.get("file_sequence_number")
                if seq is None:
                    seq = e.get("sequence_number")
                s.files[p] = FileInfo(path=p, rows=r, nrows=n, status=e["status"],
                                      entry_snapshot_id=e.get("snapshot_id"), entry_seq=seq,
                                      checksum=df.get("checksum"), sha=h, record_count=df["record_count"])

    def state(self, view, deep: bool = True, rows: bool = True) -> Optional[TableState]:
        """State named by the pointer; None if the pointer is missing/unparseable."""
        p = self.pointer(view)
        if p is None:
            return None
        v, fn = p
        return self.state_of(view, fn, v, deep, rows)

    def metadata_files(self, view) -> List[Tuple[int, str]]:
        out = []
        for rel in view.list("metadata"):
            parts = rel.split("/")
            if len(parts) != 2:
                continue
            m = _META_RE.match(parts[1])
            if m:
                out.append((int(m.group(1)), parts[1]))
        return sorted(out)
