"""In-memory, strongly consistent S3 model + boto3-shaped client + pyarrow filesystem.

Single copy, linearised at the instant the scheduler applies the request.
ETag = '"md5(body)"' as for simple PUTs on AWS S3 / MinIO (so a lock renewal with the
same body keeps the ETag).  Conditional PUT: If-None-Match:* and If-Match.
Every request is a seam call (yield, fault plan, effect).
"""
from __future__ import annotations

import datetime as _dt
import hashlib
from typing import Any, Dict, List, Optional

import botocore.exceptions as bex

from .core import Sim, cur_actor, cur_sim
from .seams import _real_datetime, classify_rel

TRANSIENT = {"InternalError": 500, "SlowDown": 503, "RequestTimeout": 400, "ServiceUnavailable": 503, "Throttling": 400,
             "503": 503}
PERMANENT = {"AccessDenied": 403, "NoSuchBucket": 404, "InvalidAccessKeyId": 403, "ExpiredToken": 400, "InvalidArgument": 400,
             "MethodNotAllowed": 405,
             "SignatureDoesNotMatch": 403}


def client_error(code: str, op: str, status: Optional[int] = None) -> bex.ClientError:
    st = status or TRANSIENT.get(code) or PERMANENT.get(code) or 400
    return bex.ClientError({"Error": {"Code": code, "Message": f"injected/{code}"},
                            "ResponseMetadata": {"HTTPStatusCode": st}}, op)


def make_exc(name: Optional[str], op: str = "Op") -> BaseException:
    name = name or "InternalError"
    if name == "EndpointConnectionError":
        return bex.EndpointConnectionError(endpoint_url="http://fake-s3")
    if name == "ReadTimeoutError":
        return bex.ReadTimeoutError(endpoint_url="http://fake-s3")
    if name == "ConnectionClosedError":
        return bex.ConnectionClosedError(endpoint_url="http://fake-s3")
    if name == "NoCredentialsError":
        return bex.NoCredentialsError()              # raised client-side, before any request is sent
    if name == "ParamValidationError":
        return bex.ParamValidationError(report="injected")
    return client_error(name, op)


def _owner(body: bytes) -> str:
    """Owner token named by a lock object's content: the writer's id, optionally followed by ':<renewal counter>'
    (a renewal has to change the bytes for the ETag to change).  Oracles compare owners, not raw bytes."""
    return body.decode("utf-8", "replace").split(":", 1)[0]


class Obj:
    __slots__ = ("body", "etag", "mtime", "writer")

    def __init__(self, body: bytes, mtime: float, writer: str):
        self.body = body
        self.etag = '"' + hashlib.md5(body).hexdigest() + '"'
        self.mtime = mtime
        self.writer = writer


class Store:
    """bucket -> key -> Obj.  Shared by every simulated process of a run."""

    def __init__(self):
        self.buckets: Dict[str, Dict[str, Obj]] = {}
        self.page_size = 1000
        self.requests = 0
        self.history: List[tuple] = []      # (gstep, actor, op, key, outcome) for oracles
        self.stream_faults = False          # GET bodies are seams of their own (C20 turns this on)
        self.keep_history = False

    def bucket(self, name: str) -> Dict[str, Obj]:
        return self.buckets.setdefault(name, {})

    def snapshot(self) -> dict:
        return {b: dict(k) for b, k in self.buckets.items()}

    def restore(self, snap: dict) -> None:
        self.buckets = {b: dict(k) for b, k in snap.items()}


class Body:
    """Streaming body of a GET response.  Every read() of a non-empty remainder is a seam of its own ("get_body"): the
    response headers have arrived, the bytes are still on the wire - a fault here is a connection reset / read timeout
    in the middle of the download."""

    def __init__(self, data: bytes, seam=None):
        self._d = data
        self._p = 0
        self._seam = seam

    def read(self, n: Optional[int] = None) -> bytes:
        if self._seam is not None and self._p < len(self._d) and (n is None or n != 0):
            return self._seam(lambda: self._read(n))
        return self._read(n)

    def _read(self, n: Optional[int] = None) -> bytes:
        if n is None or n < 0:
            r = self._d[self._p:]
            self._p = len(self._d)
            return r
        r = self._d[self._p:self._p + n]
        self._p += len(r)
        return r

    def close(self) -> None:
        pass


def _stamp(t: float):
    return _real_datetime.fromtimestamp(t, _dt.timezone.utc)


class FakeS3Client:
    def __init__(self, store: Store, table_prefixes: Optional[List[str]] = None):
        self.store = store

    # -- helpers
    def _rel(self, key: str) -> str:
        sim = cur_sim()
        prefs = sim.extra.get("s3_prefixes", []) if sim else []
        for p in prefs:
            if p == "":
                return key
            if key == p:
                return "."
            if key.startswith(p + "/"):
                return key[len(p) + 1:]
        return "<key>" + key

    def _call(self, op: str, key: str, do, opname: str, detail: Optional[dict] = None):
        sim = cur_sim()
        if sim is None or sim.me() is None:
            return do()
        rel = self._rel(key)
        cls = classify_rel(rel) if not rel.startswith("<") else "OUTSIDE"
        self.store.requests += 1
        a = sim.me()

        def do2():
            try:
                r = do()
            except bex.ClientError as e:
                if self.store.keep_history:
                    self.store.history.append((sim.gstep, a.name, op, rel,
                                               e.response["Error"]["Code"]))
                raise
            if self.store.keep_history:
                self.store.history.append((sim.gstep, a.name, op, rel, "ok"))
            return r
        return sim.seam(op, cls, rel, do2, fail=lambda n: make_exc(n, opname), detail=detail)

    def _call_body(self, key: str, do):
        sim = cur_sim()
        if sim is None or sim.me() is None:
            return do()
        rel = self._rel(key)
        cls = classify_rel(rel) if not rel.startswith("<") else "OUTSIDE"

        def streaming_failure(name: str):
            # whatever the fault is called, mid-body it surfaces as a transport error, never as an S3 error document
            if name in ("ReadTimeoutError", "AccessDenied"):
                return bex.ReadTimeoutError(endpoint_url="http://fake-s3")
            return bex.ResponseStreamingError(error="injected connection reset while streaming the body")
        return sim.seam("get_body", cls, rel, do, fail=streaming_failure)

    # -- API
    def get_object(self, Bucket: str, Key: str, Range: Optional[str] = None, **kw):
        def do():
            o = self.store.bucket(Bucket).get(Key)
            if o is None:
                raise client_error("NoSuchKey", "GetObject", 404)
            if kw.get("IfMatch") is not None and kw["IfMatch"] != o.etag:
                raise client_error("PreconditionFailed", "GetObject", 412)
            data = o.body
            if Range is not None:
                assert Range.startswith("bytes=")
                lo_s, hi_s = Range[6:].split("-")
                lo = int(lo_s)
                hi = int(hi_s) if hi_s else len(data) - 1
                sim = cur_sim()
                if sim is not None:
                    sim.extra.setdefault("ranges", []).append((Key, lo, hi, len(data)))
                if lo >= len(data) or lo > hi:
                    raise client_error("InvalidRange", "GetObject", 416)
                data = data[lo:hi + 1]
            sim = cur_sim()
            if sim is not None and self.store.keep_history and Key.endswith(".lock"):
                sim.extra.setdefault("lock_reads", []).append(
                    (sim.gstep + 0, cur_actor().name if cur_actor() else "-", _owner(data)))
                # a GET also tells the caller the object's age (LastModified): it is an inspection like a HEAD
                sim.extra.setdefault("lock_heads", []).append(
                    (sim.gstep + 0, cur_actor().name if cur_actor() else "-", sim.true_time(), o.mtime, _owner(o.body)))
            body_seam = None
            if self.store.stream_faults:
                body_seam = lambda do_read: self._call_body(Key, do_read)      # noqa: E731
            return {"Body": Body(data, body_seam), "ETag": o.etag, "LastModified": _stamp(o.mtime),
                    "ContentLength": len(data)}
        return self._call("get", Key, do, "GetObject")

    def head_object(self, Bucket: str, Key: str, **kw):
        def do():
            o = self.store.bucket(Bucket).get(Key)
            if o is None:
                raise client_error("404", "HeadObject", 404)
            sim = cur_sim()
            if sim is not None and self.store.keep_history and Key.endswith(".lock"):
                a = cur_actor()
                sim.extra.setdefault("lock_heads", []).append(
                    (sim.gstep + 0, a.name if a else "-", sim.true_time(), o.mtime, _owner(o.body)))
            return {"ETag": o.etag, "LastModified": _stamp(o.mtime), "ContentLength": len(o.body)}
        return self._call("head", Key, do, "HeadObject")

    def put_object(self, Bucket: str, Key: str, Body: Any = b"", IfNoneMatch: Optional[str] = None,
                   IfMatch: Optional[str] = None, **kw):
        if hasattr(Body, "read"):
            Body = Body.read()
        if isinstance(Body, str):
            Body = Body.encode("utf-8")
        body = bytes(Body)

        def do():
            b = self.store.bucket(Bucket)
            cur = b.get(Key)
            sim = cur_sim()
            if IfNoneMatch == "*" and cur is not None:
                if sim:
                    sim.probe("cas_conflict")
                raise client_error("PreconditionFailed", "PutObject", 412)
            if IfMatch is not None:
                if cur is None:
                    raise client_error("NoSuchKey", "PutObject", 404)
                if cur.etag != IfMatch:
                    if sim:
                        sim.probe("cas_conflict")
                    raise client_error("PreconditionFailed", "PutObject", 412)
            a = cur_actor()
            t = sim.true_time() if sim else 0.0
            o = Obj(body, t, a.name if a else "-")
            b[Key] = o
            if sim is not None and self.store.keep_history and Key.endswith(".lock"):
                sim.extra.setdefault("lock_writes", []).append(
                    (sim.gstep + 0, a.name if a else "-", _owner(body),
                     "create" if IfNoneMatch else ("cas" if IfMatch else "plain")))
                sim.extra.setdefault("lock_writes2", []).append(
                    {"g": sim.gstep + 0, "actor": a.name if a else "-", "body": _owner(body), "raw": body.decode("utf-8", "replace"),
                     "mode": "create" if IfNoneMatch else ("cas" if IfMatch else "plain"),
                     "prev": _owner(cur.body) if cur is not None else None,
                     "prev_mtime": cur.mtime if cur is not None else None, "t": sim.now, "tt": t})
                if cur is not None and _owner(cur.body) != _owner(body):
                    sim.probe("lock_takeover")
            return {"ETag": o.etag}
        return self._call("put", Key, do, "PutObject",
                          {"if_match": IfMatch is not None, "if_none_match": IfNoneMatch is not None})

    def delete_object(self, Bucket: str, Key: str, **kw):
        def do():
            prev = self.store.bucket(Bucket).pop(Key, None)
            sim = cur_sim()
            if sim is not None and self.store.keep_history and Key.endswith(".lock"):
                a = cur_actor()
                sim.extra.setdefault("lock_deletes", []).append(
                    (sim.gstep + 0, a.name if a else "-", _owner(prev.body) if prev else None,
                     sim.now))
            return {}
        return self._call("delete", Key, do, "DeleteObject")

    def list_objects_v2(self, Bucket: str, Prefix: str = "", MaxKeys: Optional[int] = None,
                        ContinuationToken: Optional[str] = None, **kw):
        def do():
            b = self.store.bucket(Bucket)
            keys = sorted(k for k in b if k.startswith(Prefix))
            if ContinuationToken:
                keys = [k for k in keys if k > ContinuationToken]
            n = min(MaxKeys or self.store.page_size, self.store.page_size)
            page = keys[:n]
            resp: Dict[str, Any] = {"KeyCount": len(page), "IsTruncated": len(keys) > n,
                                    "Prefix": Prefix}
            if page:
                resp["Contents"] = [{"Key": k, "LastModified": _stamp(b[k].mtime), "ETag": b[k].etag,
                                     "Size": len(b[k].body)} for k in page]
            if len(keys) > n:
                resp["NextContinuationToken"] = page[-1]
            return resp
        return self._call("list", Prefix, do, "ListObjectsV2")

    def get_paginator(self, name: str):
        assert name == "list_objects_v2"
        client = self

        class P:
            def paginate(self, **kw):
                tok = None
                while True:
                    args = dict(kw)
                    if tok:
                        args["ContinuationToken"] = tok
                    page = client.list_objects_v2(**args)
                    yield page
                    if not page.get("IsTruncated"):
                        return
                    tok = page["NextContinuationToken"]
        return P()


# ---------------------------------------------------------------------------- boto3 / pyarrow.fs replacements
class _Session:
    def __init__(self, store: Store):
        self._store = store

    def client(self, service: str, **kw):
        assert service == "s3"
        return FakeS3Client(self._store)


class FakeBoto3:
    """Stands in for the `boto3` module object inside storage_backend."""

    def __init__(self, store_getter):
        outer = self

        class session:  # noqa
            @staticmethod
            def Session(*a, **kw):
                return _Session(store_getter())
        self.session = session


def make_pyfs(store_getter):
    """Factory replacing pyarrow.fs.S3FileSystem: a PyFileSystem over the same store.
    Paths are 'bucket/key'.  The object is PUT (one seam call) when the stream is closed."""
    import io

    import pyarrow as pa
    import pyarrow.fs as pafs

    class _Out(io.BytesIO):
        def __init__(self, bucket, key):
            super().__init__()
            self._bk = (bucket, key)
            self._done = False

        def close(self):
            if not self._done:
                self._done = True
                data = self.getvalue()
                FakeS3Client(store_getter()).put_object(Bucket=self._bk[0], Key=self._bk[1], Body=data)
            super().close()

    class Handler(pafs.FileSystemHandler):
        def __eq__(self, other):
            return isinstance(other, Handler)

        def __ne__(self, other):
            return not self.__eq__(other)

        def get_type_name(self):
            return "dsim-s3"

        def normalize_path(self, path):
            return path

        def _split(self, path):
            b, _, k = path.partition("/")
            return b, k

        def get_file_info(self, paths):
            out = []
            for p in paths:
                b, k = self._split(p)
                o = store_getter().bucket(b).get(k)
                if o is None:
                    out.append(pafs.FileInfo(p, pafs.FileType.NotFound))
                else:
                    out.append(pafs.FileInfo(p, pafs.FileType.File, size=len(o.body)))
            return out

        def get_file_info_selector(self, selector):
            return []

        def create_dir(self, path, recursive):
            pass

        def delete_dir(self, path):
            pass

        def delete_dir_contents(self, path, missing_dir_ok=False):
            pass

        def delete_root_dir_contents(self):
            pass

        def delete_file(self, path):
            b, k = self._split(path)
            FakeS3Client(store_getter()).delete_object(Bucket=b, Key=k)

        def move(self, src, dest):
            raise NotImplementedError

        def copy_file(self, src, dest):
            raise NotImplementedError

        def open_input_stream(self, path):
            b, k = self._split(path)
            r = FakeS3Client(store_getter()).get_object(Bucket=b, Key=k)
            return pa.BufferReader(r["Body"].read())

        def open_input_file(self, path):
            return self.open_input_stream(path)

        def open_output_stream(self, path, metadata):
            b, k = self._split(path)
            return pa.PythonFile(_Out(b, k), mode="w")

        def open_append_stream(self, path, metadata):
            raise NotImplementedError

    def factory(*a, **kw):
        return pafs.PyFileSystem(Handler())

    return factory


_store_ref: Dict[str, Store] = {}


def current_store() -> Store:
    return _store_ref["store"]


def set_store(store: Store) -> None:
    _store_ref["store"] = store


_installed = False


def install() -> None:
    global _installed
    if _installed:
        return
    _installed = True
    import pyarrow.fs as pafs
    from datashard import storage_backend
    storage_backend.boto3 = FakeBoto3(current_store)
    storage_backend.BOTO3_AVAILABLE = True
    pafs.S3FileSystem = make_pyfs(current_store)
