"""Determinism self-test: every run index executed in separate interpreters (different run
order, different neighbours in the same process, different PYTHONHASHSEED) must produce
the same event-log digest and the same verdict."""
from __future__ import annotations

import json
import os
import random
import subprocess
import sys
import time

VERIF = os.path.dirname(os.path.dirname(os.path.abspath(__file__)))
PY = "/venv/bin/python"


def child(argv):
    prop, tier, seed, order = argv[0], argv[1], int(argv[2]), json.loads(argv[3])
    sys.path.insert(0, VERIF)
    from dsim import runner, s3fake, seams
    seams.install()
    s3fake.install()
    sc = runner.load_scenario(prop)
    out = {}
    scratch = os.path.join(runner.SCRATCH_BASE, f"d{os.getpid()}")
    for idx in order:
        rs = runner.h64(seed, prop, idx)
        plan = sc.gen(random.Random(rs), tier, idx)
        plan["run_seed"] = rs
        plan["idx"] = idx
        res = sc.execute(plan, os.path.join(scratch, f"r{idx}"))
        out[str(idx)] = [res.get("digest"), res.get("outcome"), sorted(v["sig"] for v in res.get("violations", [])),
                         res.get("steps")]
    import shutil
    shutil.rmtree(scratch, ignore_errors=True)
    print("DIGESTS " + json.dumps(out))
    sys.stdout.flush()
    os._exit(0)


def run_child(prop, tier, seed, order, hashseed):
    env = dict(os.environ, PYTHONHASHSEED=str(hashseed), PYTHONDONTWRITEBYTECODE="1")
    p = subprocess.run([PY, "-c", "import sys; sys.path.insert(0, %r); from dsim.selftest import child; "
                                  "child(sys.argv[1:])" % VERIF, prop, tier, str(seed), json.dumps(order)],
                       env=env, capture_output=True, text=True, timeout=1200)
    for line in p.stdout.splitlines():
        if line.startswith("DIGESTS "):
            return json.loads(line[8:])
    raise RuntimeError(f"child failed rc={p.returncode}: {p.stderr[-2000:]}")


def main(argv):
    props = argv[0].split(",")
    n = int(argv[1]) if len(argv) > 1 else 32
    seed = int(argv[2]) if len(argv) > 2 else 7
    from concurrent.futures import ThreadPoolExecutor
    bad = 0
    for prop in props:
        t0 = time.time()
        idxs = list(range(n))
        chunks = [idxs[i::8] for i in range(8)]
        rev = [list(reversed(idxs))[i::5] for i in range(5)]
        with ThreadPoolExecutor(16) as ex:
            fa = [ex.submit(run_child, prop, "quick", seed, c, 0) for c in chunks if c]
            fb = [ex.submit(run_child, prop, "quick", seed, c, 0) for c in rev if c]
            fc = [ex.submit(run_child, prop, "quick", seed, c, 12345) for c in chunks if c]
            A, B, C = {}, {}, {}
            for f in fa:
                A.update(f.result())
            for f in fb:
                B.update(f.result())
            for f in fc:
                C.update(f.result())
        dab = [i for i in A if A[i] != B.get(i)]
        dac = [i for i in A if A[i] != C.get(i)]
        print(f"[selftest determinism] {prop}: {len(A)} run indexes x 3 executions "
              f"(2 process layouts at PYTHONHASHSEED=0, 1 at PYTHONHASHSEED=12345): "
              f"layout mismatches={len(dab)} hashseed mismatches={len(dac)} wall={time.time() - t0:.0f}s")
        for i in dab[:3]:
            print("   layout diff idx", i, A[i], B.get(i))
        for i in dac[:3]:
            print("   hashseed diff idx", i, A[i], C.get(i))
        bad += len(dab)
    return 1 if bad else 0


if __name__ == "__main__":
    rc = main(sys.argv[1:])
    sys.stdout.flush()
    os._exit(rc)
