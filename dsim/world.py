"""World: one table on one simulated storage (local scratch dir or fake S3), the
flip observer, and the operation vocabulary actors execute against the real library."""
from __future__ import annotations

import copy
import os
import shutil
from typing import Any, Callable, Dict, List, Optional

from . import core, ir, s3fake, seams
from .core import Sim, SimDead, SimKilled

SCHEMA_FIELDS = [
    {"id": 1, "name": "tag", "type": "string", "required": True},
    {"id": 2, "name": "v", "type": "long", "required": False},
]


SCHEMAS = {
    "A": SCHEMA_FIELDS,
    "B": SCHEMA_FIELDS + [{"id": 3, "name": "w", "type": "string", "required": False}],
    "Ar": list(reversed(SCHEMA_FIELDS)),      # schema A spelled with its columns in the other order (same ids)
}


def schema(schema_id: int = 1, fields: Optional[list] = None):
    from datashard import Schema
    return Schema(schema_id=schema_id, fields=copy.deepcopy(fields or SCHEMA_FIELDS))


def mkrows(tag: str, n: int) -> List[dict]:
    return [{"tag": f"{tag}.{j}", "v": j} for j in range(n)]


class World:
    def __init__(self, sim: Sim, backend: str, scratch: str, location: str = "tbl",
                 table_path: Optional[str] = None, store: Optional[s3fake.Store] = None,
                 s3_env_prefix: str = ""):
        """backend: 'local' | 's3' (conditional writes) | 's3poll' (no conditional writes).
        scratch: private scratch directory of this run (already exists).
        location: directory name (local) or S3 table prefix.
        table_path: the spelling handed to datashard (defaults to the absolute path / the prefix)."""
        self.sim = sim
        self.backend = backend
        self.scratch = scratch
        sim.extra["scratch"] = scratch
        self.reader = ir.Reader()
        self.flips: List[dict] = []
        self.history: List[dict] = []
        sim.extra["world_history"] = self.history     # oracles that only hold the Sim can look the op records up
        self.on_flip: List[Callable[[dict], None]] = []
        self._last_hint: Optional[bytes] = None
        if backend == "local":
            self.root = os.path.join(scratch, location)
            self.table_path = table_path if table_path is not None else self.root
            sim.extra["roots"] = [os.path.realpath(self.root)]
            os.environ["DATASHARD_STORAGE_TYPE"] = "local"
            self.store = None
        else:
            self.store = store or s3fake.Store()
            s3fake.set_store(self.store)
            self.bucket = "bkt"
            self.table_path = table_path if table_path is not None else location
            os.environ["DATASHARD_STORAGE_TYPE"] = "s3"
            os.environ["DATASHARD_S3_BUCKET"] = self.bucket
            os.environ["DATASHARD_S3_PREFIX"] = s3_env_prefix
            os.environ["DATASHARD_S3_USE_CONDITIONAL_WRITES"] = "true" if backend == "s3" else "false"
            os.environ.pop("DATASHARD_S3_ENDPOINT", None)
            tp = self.table_path.strip("/")
            ep = s3_env_prefix.rstrip("/")
            self.prefix = f"{ep}/{tp}" if ep and tp else (ep or tp)
            sim.extra["s3_prefixes"] = [self.prefix]
        sim.observers.append(self._observe)
        self._last_hint = self._hint_bytes()

    # ------------------------------------------------------------------ views
    def view(self):
        if self.backend == "local":
            return ir.LocalView(self.root)
        return ir.S3View(self.store, self.bucket, self.prefix)

    def _hint_bytes(self) -> Optional[bytes]:
        try:
            return self.view().read(ir.HINT)
        except (FileNotFoundError, KeyError, NotADirectoryError):
            return None

    def state(self, deep: bool = True, rows: bool = True) -> Optional[ir.TableState]:
        return self.reader.state(self.view(), deep, rows)

    # ------------------------------------------------------------------ flip observer
    def _observe(self, sim: Sim, a, op: str, cls: str, target: str, res: Any) -> None:
        if cls != "HINT" or op in ("stat", "open", "get", "head", "read", "list"):
            return
        if isinstance(res, BaseException):
            return
        now = self._hint_bytes()
        if now == self._last_hint:
            return
        flip = {"gstep": sim.gstep, "vtime": sim.now, "actor": a.name, "proc": a.proc.name, "op": op,
                "old": self._last_hint, "new": now, "cur_op": a.cur_op, "n": len(self.flips)}
        self._last_hint = now
        self.flips.append(flip)
        if a.cur_op is not None:
            a.cur_op.setdefault("flips", []).append(flip["n"])
        sim.probe("flip")
        for cb in self.on_flip:
            cb(flip)

    def resync_hint(self) -> None:
        """After the harness itself edited the pointer (damage injection)."""
        self._last_hint = self._hint_bytes()

    # ------------------------------------------------------------------ handles
    def open_table(self, create: bool = True, with_schema: bool = True, sch=None):
        import datashard
        if create:
            return datashard.create_table(self.table_path, schema=(sch or schema()) if with_schema else None)
        return datashard.load_table(self.table_path)

    def cleanup(self) -> None:
        shutil.rmtree(self.scratch, ignore_errors=True)


# ---------------------------------------------------------------------------- op execution
class Ctx:
    """Per-actor execution context (one simulated process or one thread of it)."""

    def __init__(self, world: World, name: str, table_getter: Callable[[], Any]):
        self.world = world
        self.name = name
        self._get = table_getter
        self._table = None
        self.txs: Dict[Any, Any] = {}

    @property
    def table(self):
        if self._table is None:
            self._table = self._get()
        return self._table

    def drop(self):
        self._table = None


def _resolve_index(seq: list, k: int):
    if not seq:
        return None
    return seq[k % len(seq)]


def exec_op(ctx: Ctx, op: dict, rec: dict) -> Any:
    """Execute one harness-level operation against the real library.
    rec["resolved"] receives what the op actually targeted (for the model)."""
    w = ctx.world
    sim = w.sim
    kind = op["kind"]
    res: Dict[str, Any] = {}
    rec["resolved"] = res
    if kind == "open":
        ctx.drop()
        t = ctx.table
        return True
    if kind in ("create", "load", "ctor"):
        import datashard
        ctx.drop()
        sname = op.get("schema")
        sch = schema(1, SCHEMAS[sname]) if sname else None
        if kind == "create":
            ctx._table = datashard.create_table(w.table_path, schema=sch)
        elif kind == "load":
            ctx._table = datashard.load_table(w.table_path)
        else:
            ctx._table = datashard.Table(w.table_path, create_if_not_exists=True, schema=sch)
        md = ctx._table.metadata_manager.refresh()
        res["uuid"] = md.table_uuid if md else None
        return res["uuid"]
    if kind == "observe":
        t = ctx._table
        if t is None:
            res["uuid"] = None
            return None
        md = t.metadata_manager.refresh()
        res["uuid"] = md.table_uuid if md else None
        res["schema_fields"] = [s.fields for s in md.schemas if s.schema_id == md.current_schema_id][:1] if md else None
        return res["uuid"]
    if kind == "first_append":
        import datashard
        if ctx._table is None:
            # `noinit`: the handle is opened WITHOUT initialising an absent table (create_if_not_exists=False); the
            # append then meets whatever a racing creator made of the location
            ctx._table = datashard.Table(w.table_path, create_if_not_exists=not op.get("noinit"))
            ctx._noinit = bool(op.get("noinit"))
        res["noinit"] = bool(getattr(ctx, "_noinit", False))
        if op.get("prebuilt"):
            # the first append registers a PRE-BUILT parquet file (schema A, or B when `wide`) instead of records
            df, rows, rel = stage_prebuilt(ctx._table, sim, op)
            res["appends"] = [rows]
            res["file_op"] = True
            res["passed_schema"] = False
            res["prebuilt"] = "B" if op.get("wide") else "A"
            with ctx._table.new_transaction() as tx:
                tx.append_files([df])
            return True
        rows = mkrows(op["tag"], op.get("n", 1))
        if op.get("fieldless"):
            rows = [{}, {}]      # a batch whose records carry no field at all: no schema can be derived from it
        res["appends"] = [rows]
        sname = op.get("schema")
        sch = schema(1, SCHEMAS[sname]) if sname else None
        res["passed_schema"] = bool(sname)
        return ctx._table.append_records(rows, schema=sch)
    t = ctx.table
    if kind == "append":
        rows = mkrows(op["tag"], op.get("n", 2))
        res["appends"] = [rows]
        style = op.get("style", "records")
        sch = schema() if op.get("pass_schema") else None
        if style == "records":
            return t.append_records(rows, schema=sch)
        if style == "with":
            with t.new_transaction() as tx:
                tx.append_data(rows, schema=sch)
            return True
        tx = t.new_transaction().begin()
        tx.append_data(rows, schema=sch)
        return tx.commit()
    if kind == "multi":
        parts = [mkrows(f"{op['tag']}{chr(97 + q)}", op.get("n", 1)) for q in range(op.get("parts", 2))]
        res["appends"] = parts
        if op.get("pause"):
            pass
        if op.get("style", "with") == "with":
            with t.new_transaction() as tx:
                tx.append_data(parts[0])
                if op.get("gap"):
                    sim.sleep(op["gap"])
                for part in parts[1:]:
                    tx.append_data(part)
            return True
        tx = t.new_transaction().begin()
        tx.append_data(parts[0])
        if op.get("gap"):
            sim.sleep(op["gap"])
        for part in parts[1:]:
            tx.append_data(part)
        return tx.commit()
    if kind == "long_append":
        # append_data, hold the transaction open for `gap` virtual seconds, then commit
        rows = mkrows(op["tag"], op.get("n", 2))
        res["appends"] = [rows]
        tx = t.new_transaction().begin()
        tx.append_data(rows)
        if op.get("gap"):
            sim.sleep(op["gap"])
        if op.get("rollback"):
            res["appends"] = []
            res["rolled_back"] = True
            return tx.rollback()
        return tx.commit()
    if kind == "files_append":
        # a PRE-BUILT parquet file: staged by the caller `age` virtual seconds before it is handed to a transaction
        # with append_files() under the path spelling `spell`, the transaction held open for `gap`, then committed /
        # rolled back
        df, rows, rel = stage_prebuilt(t, sim, op)
        res["staged"] = rel
        res["appends"] = [rows]
        res["file_op"] = True
        tx = t.new_transaction().begin()
        if op.get("late"):
            # the caller hands the file over TOO EARLY: it is still missing ("missing") or half written by the caller's
            # own writer ("garbage") at the first append_files() call, which raises; the caller finishes the file and
            # calls append_files() again on the SAME transaction
            full = os.path.join(t.storage.base_path, rel) if hasattr(t.storage, "base_path") else None
            if True:
                if full is not None and op.get("raw"):
                    if op["late"] == "missing":
                        seams.SIM_OS.remove(full)
                    else:
                        f = seams.sim_open(full, "wb")
                        f.write(b"PAR1 not a parquet file yet")
                        f.close()
                elif op["late"] == "missing":
                    t.storage.delete_file(rel)
                else:
                    t.storage.write_file(rel, b"PAR1 not a parquet file yet")
                try:
                    tx.append_files([df])
                    res["late_accepted"] = True
                except (FileNotFoundError, ValueError) as e:
                    res["late_rejected"] = type(e).__name__
                df, rows, rel = stage_prebuilt(t, sim, dict(op, age=0))
        tx.append_files([df])
        res["registered"] = True
        res["registered_g"] = sim.gstep
        if op.get("second"):
            # a SECOND append_files() call in the same transaction, for a file (and maybe a directory) that did not exist
            # when the first call ran
            op2 = dict(op, tag=op["tag"] + "b", **op["second"])
            op2.pop("second", None)
            df2, rows2, rel2 = stage_prebuilt(t, sim, op2)
            tx.append_files([df2])
            res["appends"] = [rows, rows2]
            res["staged2"] = rel2
        if op.get("gap"):
            sim.sleep(op["gap"])
        if op.get("rollback"):
            res["appends"] = []
            res["file_op"] = False
            res["rolled_back"] = True
            return tx.rollback()
        return tx.commit()
    if kind == "rollback":
        rows = mkrows(op["tag"], op.get("n", 1))
        tx = t.new_transaction().begin()
        tx.append_data(rows)
        res["rolled_back"] = True
        return tx.rollback()
    if kind == "bad_append":
        # schema-divergent append: must be rejected
        from datashard import Schema
        bad = Schema(schema_id=1, fields=[{"id": 1, "name": "tag", "type": "string", "required": True},
                                          {"id": 2, "name": "v", "type": "string", "required": False}])
        res["expect_reject"] = True
        return t.append_records([{"tag": op["tag"], "v": "x"}], schema=bad)
    if kind == "requeue_fail":
        # a "restore" gone wrong: a data file that retained snapshots reference is queued AGAIN with append_files(),
        # together with a file that does not exist; the second call raises and the transaction is rolled back (or left
        # through its context manager). Nothing this transaction did may touch the re-queued file.
        from datashard import DataFile, FileFormat
        st = w.state(deep=True, rows=False)
        pool = sorted({p for s in (st.snaps if st else []) for p in s.files})
        p = _resolve_index(pool, op.get("k", 0))
        if p is None:
            res["noop"] = True
            return None
        res["expect_reject"] = True
        res["requeued"] = p
        df = DataFile(file_path="/" + p, file_format=FileFormat.PARQUET, partition_values={}, record_count=1,
                      file_size_in_bytes=1)
        gone = DataFile(file_path=f"/data/gone_{op['tag']}.parquet", file_format=FileFormat.PARQUET, partition_values={},
                        record_count=1, file_size_in_bytes=1)
        if op.get("with"):
            with t.new_transaction() as tx:
                tx.append_files([df])
                tx.append_files([gone])
            return True
        tx = t.new_transaction().begin()
        try:
            tx.append_files([df])
            tx.append_files([gone])
        except Exception:
            tx.rollback()
            raise
        return tx.commit()
    if kind == "delete_file":
        st = w.state(deep=True, rows=False)
        cur = st.current() if st else None
        paths = sorted(cur.files) if cur else []
        p = _resolve_index(paths, op.get("k", 0))
        if p is None:
            res["noop"] = True
            return None
        form = "/" + p if op.get("slash", True) else p
        res["deletes"] = [p]
        forms = [form]
        if "k2" in op:
            # one delete_files() call naming a SECOND file (possibly of another manifest)
            p2 = _resolve_index(paths, op["k2"])
            if p2 is not None and p2 != p:
                res["deletes"] = [p, p2]
                forms.append(p2 if op.get("slash", True) else "/" + p2)
        if op.get("with_append"):
            rows = mkrows(op["tag"], op.get("n", 1))
            res["appends"] = [rows]
            with t.new_transaction() as tx:
                tx.delete_files(forms)
                tx.append_data(rows)
            return True
        with t.new_transaction() as tx:
            tx.delete_files(forms)
        return True
    if kind == "expire":
        st = w.state(deep=False)
        snaps = st.snaps if st else []
        s = _resolve_index(snaps, op.get("k", 0))
        if s is None:
            res["noop"] = True
            return None
        cutoff = s.ts + op.get("delta", 0)
        res["expire"] = cutoff
        if op.get("with_append"):
            rows = mkrows(op["tag"], op.get("n", 1))
            res["appends"] = [rows]
            with t.new_transaction() as tx:
                tx.expire_snapshots(cutoff)
                tx.append_data(rows)
            return True
        with t.new_transaction() as tx:
            tx.expire_snapshots(cutoff)
        return True
    if kind == "delete_snapshot":
        st = w.state(deep=False)
        snaps = st.snaps if st else []
        s = _resolve_index(snaps, op.get("k", 0))
        if s is None:
            res["noop"] = True
            return None
        res["delete_snapshot"] = s.id
        r = t.snapshot_manager.delete_snapshot(s.id)
        res["returned"] = r
        return r
    if kind == "set_prop":
        mm = t.metadata_manager
        base = mm.refresh()
        new = copy.deepcopy(base)
        new.properties[op["key"]] = op["value"]
        res["set_prop"] = (op["key"], op["value"])
        mm.commit(base, new)
        return True
    if kind == "gc":
        res["gc_now"] = sim.true_time()
        res["gc_grace_ms"] = op.get("grace_ms", 3600000)
        res["gc_start_step"] = sim.gstep
        try:
            r = t.garbage_collect(grace_period_ms=op.get("grace_ms", 3600000))
        finally:
            res["gc_end_step"] = sim.gstep
            res["gc_end_now"] = sim.true_time()
        res["gc"] = r
        return r
    if kind == "tx_open" and op.get("prebuilt"):
        df, rows, rel = stage_prebuilt(t, sim, op)
        parts = [rows]
        before = set(w.view().list(""))
        tx = t.new_transaction().begin()
        tx.append_files([df])
        files = (set(w.view().list("")) - before) | {rel}
        ctx.txs[op["id"]] = (tx, parts, files)
        res["tx_files"] = sorted(files)
        return True
    if kind == "tx_open":
        parts = [mkrows(op["tag"], op.get("n", 1))]
        before = set(w.view().list(""))
        tx = t.new_transaction().begin()
        tx.append_data(parts[0])
        if op.get("second"):
            parts.append(mkrows(op["tag"] + "b", 1))
            tx.append_data(parts[1])
        files = set(w.view().list("")) - before
        ctx.txs[op["id"]] = (tx, parts, files)
        res["tx_files"] = sorted(files)
        return True
    if kind == "tx_close":
        ent = ctx.txs.pop(op["id"], None)
        if ent is None:
            res["noop"] = True
            return None
        tx, parts, _files = ent
        if op.get("how", "commit") == "commit":
            res["appends"] = parts
            return tx.commit()
        res["rolled_back"] = True
        return tx.rollback()
    if kind == "sleep":
        sim.sleep(op["dt"])
        return None
    if kind == "stage_file":
        t.storage.write_file(f"data/{op['name']}", b"PAR1-staged-by-harness")
        return True
    if kind == "scan":
        api = op.get("api", "scan")
        rows = read_api(t, api, op)
        res["rows"] = tuple(sorted((ir.row_key(r) for r in rows), key=repr)) if rows is not None else None
        return len(rows) if rows is not None else None
    if kind == "row_count":
        n = t.row_count()
        res["count"] = n
        return n
    raise ValueError(f"unknown op {kind}")


def ctx_root(t) -> str:
    return os.path.realpath(t.table_path)


def stage_prebuilt(t, sim, op: dict):
    """Write a parquet file with the harness's own writer under data/, let `age` virtual seconds pass, and describe it
    as a DataFile under the requested path spelling."""
    import io
    import pyarrow as pa
    import pyarrow.parquet as pq
    from datashard import DataFile, FileFormat
    rows = mkrows(op["tag"], op.get("n", 1))
    arrow = pa.schema([pa.field("tag", pa.string(), nullable=False), pa.field("v", pa.int64())])
    if op.get("wide"):
        # the file carries schema B (one more column than schema A)
        arrow = pa.schema(list(arrow) + [pa.field("w", pa.string())])
    buf = io.BytesIO()
    pq.write_table(pa.Table.from_pylist(rows, schema=arrow), buf)
    content = buf.getvalue()
    # `name`: basename chosen by the caller (partitioned layouts use the SAME basename in every directory);
    # `dir`: sub-directory of data/ the file lives in
    name = (op.get("name") or ("pre_" + op["tag"].replace(".", "_"))) + ".parquet"
    if op.get("dir"):
        name = f"{op['dir']}/{name}"
    if op.get("raw") and hasattr(t.storage, "base_path"):
        # written the way a user's own writer does it (pq.write_table / open+write): no fsync of the file, none of its
        # directory - goes through the os seam so that the durability shadow sees it (local backend only)
        full = os.path.join(t.storage.base_path if hasattr(t.storage, "base_path") else ctx_root(t), "data", name)
        seams.SIM_OS.makedirs(os.path.dirname(full), exist_ok=True)
        f = seams.sim_open(full, "wb")
        f.write(content)
        f.close()
    else:
        t.storage.write_file(f"data/{name}", content)
    if op.get("age"):
        sim.sleep(op["age"])
    spell = {"canon": f"/data/{name}", "noslash": f"data/{name}", "dslash": f"data//{name}",
             "dot": f"data/./{name}", "dotdot": f"data/sub/../{name}", "dotslash": f"./data/{name}"}[op.get("spell", "canon")]
    df = DataFile(file_path=spell, file_format=FileFormat.PARQUET, partition_values={}, record_count=len(rows),
                  file_size_in_bytes=len(content))
    return df, rows, f"data/{name}"


def read_api(t, api: str, op: dict) -> Optional[list]:
    kw = {}
    if op.get("filter"):
        kw["filter"] = op["filter"]
    if op.get("columns"):
        kw["columns"] = op["columns"]
    if "verify" in op:
        kw["verify_checksums"] = op["verify"]
    if api == "scan":
        return t.scan(**kw)
    if api == "scan_parallel":
        return t.scan(parallel=op.get("workers", 2), **kw)
    if api == "scan_batches":
        out = []
        for b in t.scan_batches(batch_size=op.get("batch", 2), **kw):
            out.extend(b)
        return out
    if api == "iter_records":
        return list(t.iter_records(**kw))
    raise ValueError(api)


def _install_preemption(sim, a, p: float) -> None:
    """Line-level pre-emption (shared-handle scenarios): every 'line' event executed by this actor inside datashard
    source files is a potential context switch, taken with probability p (drawn from the actor's own stream, so it
    is reproducible and independent of the schedule of the others)."""
    import sys
    import datashard
    src = os.path.dirname(os.path.realpath(datashard.__file__))
    rng = a.rng_lat

    def local(frame, event, arg):
        if event == "line" and rng.random() < p and not sim.tearing_down:
            sim.probe("line_preemption")
            sim.yield_point()
        return local

    def glob(frame, event, arg):
        if event == "call" and frame.f_code.co_filename.startswith(src):
            return local
        return None
    sys.settrace(glob)


def run_ops(ctx: Ctx, ops: List[dict]) -> None:
    """Actor body: run ops in order, recording invoke/return event numbers and outcomes."""
    w = ctx.world
    sim = w.sim
    a = sim.me()
    if a is not None and sim.extra.get("preempt_p") and getattr(ctx, "line_fault", None) is None:
        _install_preemption(sim, a, sim.extra["preempt_p"])
    for i, op in enumerate(ops):
        rec = {"actor": ctx.name, "proc": a.proc.name if a else "-", "i": i, "op": op,
               "invoke": sim.gstep, "invoke_flips": len(w.flips)}
        if a is not None:
            a.cur_op = rec
        w.history.append(rec)
        lf = getattr(ctx, "line_fault", None)
        tracing = lf is not None and lf.get("op_index", 0) == i
        try:
            if tracing:
                _install_line_tracer(lf)
            try:
                rec["result"] = _jsonable(exec_op(ctx, op, rec))
            finally:
                if tracing:
                    import sys as _sys
                    _sys.settrace(None)
            rec["outcome"] = "ok"
        except (SimDead, SimKilled):
            rec["outcome"] = "died"
            rec["ret"] = sim.gstep
            raise
        except (KeyboardInterrupt, SystemExit) as e:
            rec["outcome"] = "interrupted"
            rec["exc"] = type(e).__name__
            rec["ret"] = sim.gstep
            rec["ret_flips"] = len(w.flips)
            if getattr(ctx, "survive_interrupt", False) and isinstance(e, KeyboardInterrupt):
                # the process SURVIVES the interrupt (REPL / notebook after Ctrl-C): it drops the handle it was using and
                # goes on with its remaining operations through a new one
                rec["survived"] = True
                ctx._table = None
                sim.probe("interrupt_survived")
            else:
                if a is not None:
                    a.proc.exited = True
                    a.cur_op = None
                    sim.ops_done[a.name] += 1
                    sim.exit_process(a.proc)     # the interrupted process ends; kernel releases its locks
                break
        except BaseException as e:
            rec["outcome"] = "raise"
            rec["exc"] = type(e).__name__
            rec["msg"] = str(e)[:300]
            c = e.__cause__
            if c is not None:
                rec["cause"] = type(c).__name__
        rec["ret"] = sim.gstep
        rec["ret_flips"] = len(w.flips)
        if a is not None:
            a.cur_op = None
            sim.ops_done[a.name] += 1


def _jsonable(x):
    if isinstance(x, (type(None), bool, int, float, str)):
        return x
    if isinstance(x, dict):
        return {str(k): _jsonable(v) for k, v in x.items()}
    if isinstance(x, (list, tuple)):
        return [_jsonable(v) for v in x]
    return repr(x)


def _install_line_tracer(lf: dict) -> None:
    """Line-level interrupt (F5, thorough tier): count 'line' events executed inside datashard source files by
    this thread and raise lf['exc'] from the trace function at the lf['k']-th one, which injects the exception
    into the traced frame at that line (a deterministic model of an asynchronous KeyboardInterrupt/SystemExit).
    With k=None it only counts (reference run); lf['count'] holds the running count."""
    import sys
    import datashard
    src = os.path.dirname(os.path.realpath(datashard.__file__))
    lf.setdefault("count", 0)
    k = lf.get("k")
    exc = SystemExit if lf.get("exc") == "SystemExit" else KeyboardInterrupt

    nops: Dict[Any, set] = {}

    def at_nop(frame) -> bool:
        """A real asynchronous exception is delivered where the interpreter polls for it (function entry, calls,
        backward jumps) - never at a NOP. The NOP a bare `try:` / `else:` line compiles to lies OUTSIDE every
        protected range, so an exception injected there would skip the enclosing `finally` - a behaviour no real
        interrupt can produce. Such a line event is not an injection point: the injection moves to the next one."""
        code = frame.f_code
        if code not in nops:
            import dis
            nops[code] = {i.offset for i in dis.get_instructions(code) if i.opname == "NOP"}
        return frame.f_lasti in nops[code]

    pending = [False]

    def local(frame, event, arg):
        if event == "line":
            lf["count"] += 1
            if k is not None and not lf.get("fired") and (lf["count"] == k or pending[0]):
                if at_nop(frame):
                    pending[0] = True
                    return local
                lf["fired"] = (os.path.basename(frame.f_code.co_filename), frame.f_lineno, frame.f_code.co_name)
                raise exc()
        return local

    def glob(frame, event, arg):
        if event == "call" and frame.f_code.co_filename.startswith(src):
            return local
        return None
    sys.settrace(glob)
