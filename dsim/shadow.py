"""Durability shadow for the local backend: what would survive a power loss.

The real scratch tree is the VOLATILE view.  The shadow records, per directory, the
name->inode map captured when that directory's fd was fsync'ed, and per inode the bytes
captured when an fd of that inode was fsync'ed (read back from the real file, so bytes
written by Arrow C++ are covered).  mkdir is treated as immediately durable (journalled
metadata; the property's loss model names "unflushed content and unpersisted renames").

Images:
  pessimistic    every un-synced rename/create/unlink and all un-synced content dropped
  pointer-eager  as pessimistic, but the version pointer's directory entry as it is NOW
                 (an un-synced rename MAY persist) with that inode's durable content
  subset(rng)    each pending directory operation independently persisted or not (in
                 order), un-synced content in {durable-or-empty, prefix, full}
"""
from __future__ import annotations

import os
import stat
from typing import Callable, Dict, List, Optional, Tuple


class Shadow:
    def __init__(self, root: str):
        self.root = os.path.realpath(root)
        self.dur_dirs: Dict[str, Dict[str, int]] = {}
        self.dur_content: Dict[int, bytes] = {}
        self.pending: Dict[str, List[tuple]] = {}     # dir -> [("link", name, ino) | ("unlink", name)]
        self.version = 0
        self.vol_version = 0
        self.on_change: List[Callable[[str, str], None]] = []
        self.stats = {"file_fsync": 0, "dir_fsync": 0, "rename": 0, "unlink": 0, "create": 0, "mkdir": 0}

    # ------------------------------------------------------------------ arming
    def arm(self) -> None:
        """Everything on disk now is durable (the state before the operation under test)."""
        self.dur_dirs.clear()
        self.dur_content.clear()
        self.pending.clear()
        if not os.path.isdir(self.root):
            return
        for d, dirs, files in os.walk(self.root):
            ents = {}
            for n in dirs + files:
                try:
                    ents[n] = os.lstat(os.path.join(d, n)).st_ino
                except OSError:
                    pass
            self.dur_dirs[d] = ents
            for n in files:
                p = os.path.join(d, n)
                try:
                    with open(p, "rb") as f:
                        self.dur_content[os.lstat(p).st_ino] = f.read()
                except OSError:
                    pass

    # ------------------------------------------------------------------ seam callback
    def _inside(self, path: str) -> bool:
        ap = os.path.abspath(path)
        return ap == self.root or ap.startswith(self.root + "/")

    def _pend(self, d: str, ent: tuple) -> None:
        self.pending.setdefault(d, []).append(ent)
        self.vol_version += 1

    def after(self, op: str, path, result, detail: dict) -> None:
        try:
            path = os.fspath(path)
        except TypeError:
            return
        if isinstance(path, bytes):
            path = path.decode()
        if path.startswith("<fd"):
            return
        ap = os.path.abspath(path)
        if not self._inside(ap):
            return
        if op == "fsync":
            fd = detail.get("fd")
            try:
                st = os.fstat(fd)
            except OSError:
                return
            if stat.S_ISDIR(st.st_mode):
                ents = {}
                try:
                    for n in os.listdir(ap):
                        try:
                            ents[n] = os.lstat(os.path.join(ap, n)).st_ino
                        except OSError:
                            pass
                except OSError:
                    return
                self.dur_dirs[ap] = ents
                self.pending.pop(ap, None)
                self.stats["dir_fsync"] += 1
                self._changed("dir_fsync", ap)
            else:
                try:
                    data = os.pread(fd, st.st_size, 0) if st.st_size else b""
                except OSError:
                    return
                self.dur_content[st.st_ino] = data
                self.stats["file_fsync"] += 1
                self._changed("file_fsync", ap)
        elif op == "mkdir":
            # possibly several levels (makedirs): register every directory that now exists
            p = ap
            chain = []
            while self._inside(p) and p not in self.dur_dirs:
                chain.append(p)
                p = os.path.dirname(p)
            for q in reversed(chain):
                self.dur_dirs[q] = {}
                par = os.path.dirname(q)
                if par in self.dur_dirs:
                    try:
                        self.dur_dirs[par][os.path.basename(q)] = os.lstat(q).st_ino
                    except OSError:
                        pass
            self.stats["mkdir"] += 1
        elif op == "create":
            try:
                ino = os.lstat(ap).st_ino
            except OSError:
                return
            self._pend(os.path.dirname(ap), ("link", os.path.basename(ap), ino))
            self.stats["create"] += 1
        elif op == "replace":
            src = detail.get("src")
            try:
                ino = os.lstat(ap).st_ino
            except OSError:
                return
            if src:
                sd = os.path.dirname(os.path.abspath(src))
                # a rename is one atomic directory operation even across the two names
                self._pend(os.path.dirname(ap), ("rename", os.path.basename(src), sd, os.path.basename(ap), ino))
            else:
                self._pend(os.path.dirname(ap), ("link", os.path.basename(ap), ino))
            self.stats["rename"] += 1
            self._volatile("rename", ap)
        elif op == "remove":
            self._pend(os.path.dirname(ap), ("unlink", os.path.basename(ap)))
            self.stats["unlink"] += 1
            self._volatile("unlink", ap)

    def _changed(self, what: str, path: str) -> None:
        self.version += 1
        for cb in self.on_change:
            cb(what, path)

    def _volatile(self, what: str, path: str) -> None:
        for cb in self.on_change:
            cb(what, path)

    # ------------------------------------------------------------------ images
    def _rel(self, p: str) -> str:
        return os.path.relpath(p, self.root)

    def _content(self, ino: int, mode: str, vol_path: Optional[str]) -> bytes:
        dur = self.dur_content.get(ino, b"")
        if mode == "durable" or vol_path is None:
            return dur
        if ino in self.dur_content:
            try:
                if os.path.getsize(vol_path) == len(dur):
                    with open(vol_path, "rb") as f:
                        if f.read() == dur:
                            return dur      # nothing un-synced about this inode: its content cannot regress
            except OSError:
                return dur
        try:
            with open(vol_path, "rb") as f:
                vol = f.read()
        except OSError:
            return dur
        if mode == "full":
            return vol
        return vol[: len(vol) // 2]

    def image(self, variant: str = "pessimistic", rng=None, hint_name: str = "metadata.version-hint.text"
              ) -> Dict[str, bytes]:
        dirs: Dict[str, Dict[str, int]] = {d: dict(e) for d, e in self.dur_dirs.items()}
        content_mode: Dict[int, str] = {}
        if variant == "pointer-eager":
            try:
                ino = os.lstat(os.path.join(self.root, hint_name)).st_ino
                dirs.setdefault(self.root, {})[hint_name] = ino
            except OSError:
                dirs.setdefault(self.root, {}).pop(hint_name, None)
        elif variant == "subset" and rng is not None:
            for d, ops in self.pending.items():
                ents = dirs.setdefault(d, {})
                for o in ops:
                    if rng.random() < 0.5:
                        continue
                    if o[0] == "link":
                        ents[o[1]] = o[2]
                    elif o[0] == "unlink":
                        ents.pop(o[1], None)
                    elif o[0] == "rename":
                        _k, sname, sdir, dname, ino = o
                        dirs.setdefault(sdir, {}).pop(sname, None)
                        ents[dname] = ino
            for d, ents in dirs.items():
                for n, ino in ents.items():
                    content_mode[ino] = rng.choice(["durable", "durable", "prefix", "full"])
        out: Dict[str, bytes] = {}
        ino_path: Dict[int, str] = {}
        if variant == "subset":
            for d, _ds, fs in os.walk(self.root):
                for n in fs:
                    p = os.path.join(d, n)
                    try:
                        ino_path[os.lstat(p).st_ino] = p
                    except OSError:
                        pass
        for d, ents in dirs.items():
            for n, ino in ents.items():
                p = os.path.join(d, n)
                if (d in self.dur_dirs and ino in [None]) or False:
                    continue
                # directories are keys of dirs themselves
                if p in dirs:
                    continue
                out[self._rel(p)] = self._content(ino, content_mode.get(ino, "durable"), ino_path.get(ino))
        return out
