#!/venv/bin/python
"""Regenerates MANIFEST.json from the scenario modules (single source of truth for levels/notes)."""
import importlib, json, os, sys
sys.path.insert(0, os.path.dirname(os.path.abspath(__file__)))
CLAIMED = {
 "C01": ("6/C01", "Refinement of every pointer flip against a sequential reference model over seeded schedules of 2-4 committers (threads on one handle with line-level pre-emption, separate handles, mixed), local and CAS-S3, fine/coarse/frozen clocks, targeted holds that force a stale base, and a committer process killed mid-commit. Sampling, not proof: a clean batch is evidence over the explored interleavings."),
 "C02": ("6/C02", "Every read's result is compared with the committed snapshots current during its flip interval, over seeded schedules of readers x writers; sampling of interleavings at storage-operation granularity."),
 "C03": ("6/C03", "Process death injected before each storage-level seam call of each operation type (quick samples k, thorough sweeps every k) on seeded histories; reopen, read, append and GC checked after each crash. Exhaustive only over the crash points of the sampled histories."),
 "C05": ("6/C05", "Seeded single-writer histories crossed with table-location spellings (absolute, relative, ./x, trailing slash, symlinked parent/root, names that are string prefixes of data/ and metadata/, S3 prefixes) and grace periods, with open transactions that wrote their file or registered a pre-built one (append_files, 0-2 h old) and committed pre-built files referenced under 6 path spellings; each collection's deletions (from the event log) are checked against an independently computed reachable set plus open-transaction files, and old orphans must be gone. Sampling of histories; the spelling set is enumerated."),
 "C06": ("6/C06", "Seeded interleavings of one collector with 1-2 long-running writers (append_data, or append_files of a pre-built file already older than grace) at storage-operation granularity, with targeted holds at every collector phase boundary and file ages on both sides of the grace period; oracle on the final metadata. Judged only when grace exceeds the collection's virtual duration."),
 "C07": ("6/C07", "One untrusted input per run - exception at each storage call of the collection, each reachable metadata-plane file missing/truncated/noise/replaced by the JSON document {}, escaping listing entries at start/middle/end - on tables with retained snapshots, aged orphans, an open transaction and a writer that died before or AT its pointer write (its left-over may drop retained snapshots); quick samples, thorough sweeps every call and file."),
 "C08": ("6/C08", "Seeded interleavings of 2-3 committers on the CAS-S3 model with process pauses and request stalls of 0.5-200 s at chosen S3 requests (lease 60 s), clock skew, lost pointer-PUT responses, tables whose pointer object is lost, with the real CAS lock and with a grant-all lock; refinement at every flip plus a fence-read oracle."),
 "C09": ("6/C09", "Seeded single-writer histories under monotone, coarse and non-monotone clocks; after every step every retained snapshot is re-read by the independent reader and compared with its content at commit, lookups by id and by timestamp (at, around and between every retained timestamp) are compared with a commit-order oracle."),
 "C10": ("6/C10", "Histories with cleanly failed and CAS-losing commits, then the pointer replaced by each class of a byte-level grammar (13 classes), then a seeded subsequence of open/create/append/GC/reopen in a fresh process; the table must resolve to the latest committed version known from the flip log. Stale-pointer class is a recorded known finding."),
 "C11": ("6/C11", "Handle/history part only: multi-append histories through fresh and reused handles with 9 schema-argument variants, pre-built files with 8 schema variants and a fixed adversarial value pool, plus schema-less tables whose appends pass their own (same or different) schema; rejected => no trace, accepted => all later scans and per-column filtered scans equal the reference multiset. The value-class dimension is sampled from a fixed pool, not enumerated (input generation is not what simulation adds)."),
 "C14": ("6/C14", "Every file reachable from the current snapshot (incl. pre-built files registered without checksum) x 20 damage kinds x 15 read API/option combinations, plus an injected exception at each storage read call, optionally with a dead writer's never-committed version on disk (S3: within/beyond the retry budget, permanent); quick samples (file, damage) pairs, thorough sweeps all of them for each sampled table."),
 "C15": ("6/C15", "Seeded single-writer histories (incl. pre-built files under two spellings) with retention and metadata-log-bound properties; refinement of every flip against the reference model (parents, sequence numbers, carried entries, logs) plus state invariants after every step. The exhaustive-small-forest clause of the quantifier is input enumeration and is not covered."),
 "C16": ("6/C16", "Local backend: durability shadow over every os-level call; a power loss is evaluated after every durable-state change and every rename/unlink of every operation type in pessimistic, pointer-eager and seeded-subset images; sampled images are materialised and read by the real library."),
 "C20": ("6/C20", "Differential execution of seeded storage-operation sequences (existence queries on keys, directory names and trailing-slash names) and seek/read programs against the local backend (reference) and the S3 backend over the in-memory model, plus per-request fault bursts within/beyond the retry budget and permanent codes. The sequence-equivalence half is reference-model checking; the fault half is the simulation proper."),
 "C18": ("6/C18", "Seeded interleavings of 2-3 creators/openers/first appenders over five initial states on local and CAS-S3; identity, schema and data of an existing table and uniqueness of initialisation checked at every flip and at the end."),
 "C19": ("6/C19", "Seeded interleavings of 2-3 lock contenders: local FileLock cycles with holder death, local commits with a killed process, S3 CAS lock cycles with pauses/stalls around the lease and heartbeat actors (incl. a directed renewal-vs-takeover race), and the polling provider's two stated guarantees. Real multi-process stress is out of technique and not done."),
 "C04": ("6/C04", "One fault (exception before/after effect incl. 412-after-effect on conditional PUTs, disk full, short write, KeyboardInterrupt/SystemExit before/after each storage call AND at sampled line events inside datashard code via sys.settrace) at each point of each commit type plus selected double faults, on local, CAS-S3 and non-CAS S3; outcome-indexed oracle (success=>post, ambiguous=>pre|post and files kept, storage error=>pre, interrupt=>pre|post); usability afterwards checked from the same and from a fresh handle, and - for KeyboardInterrupt - from the interrupted process itself when it survives."),
}
NA = [
 {"property_id": "C12", "reason": "pure function of (table content, filter, API option): no schedule, clock, fault or history in the statement; deciding it is input enumeration against an evaluator (property-based testing), not simulation"},
 {"property_id": "C13", "reason": "pruning decision and bound codec are pure functions of (value multiset, operator, literal); the stated method is exhaustive small-domain input enumeration, which simulation adds nothing to"},
 {"property_id": "C17", "reason": "quantifies over path strings and static symlink layouts at each entry point: grammar enumeration with no schedule, clock or fault; the os seam's containment monitor runs in every simulated run but only sees paths the workloads produce, so no claim is made"},
]
checks = []
for pid, (ref, text) in sorted(CLAIMED.items()):
    sc = importlib.import_module(f"scenarios.{pid.lower()}")
    checks.append({
        "property_id": pid,
        "quick_cmd": f"./check {pid} --tier quick",
        "thorough_cmd": f"./check {pid} --tier thorough",
        "evidence_file": f"evidence/{pid}.json",
        "replay_cmd_template": f"./check {pid} --replay {{path}}",
        "engine": "dsim",
        "level_claimed": {"category": sc.LEVEL, "text": text, "design_ref": f"DESIGN.md section {ref}"},
        "level_note": "; ".join(sc.ASSUMPTIONS),
        "technique": "deterministic simulation with fault injection: seeded baton scheduler over real threads, virtual clock, storage/S3 seams, independent-reader + reference-model oracles",
    })
claimed = set(CLAIMED)
allp = [json.loads(l)["id"] for l in open(os.path.join(os.path.dirname(os.path.abspath(__file__)), "properties.jsonl"))]
na = list(NA)
for p in allp:
    if p not in claimed and p not in {n["property_id"] for n in na}:
        na.append({"property_id": p, "reason": "check not built yet in this round (planned in DESIGN.md section 6); not claimed until its scenario exists"})
m = {
 "version": 1,
 "setup_cmd": "/venv/bin/python -c \"import datashard, pyarrow, fastavro, botocore, os; assert os.path.realpath(datashard.__file__).startswith('/repo/src')\"",
 "hooks": {"guard": "DATASHARD_VERIF", "enable": "no source hooks: every seam is installed from outside /repo by replacing module attributes of datashard modules at check start (dsim/seams.py, dsim/s3fake.py); the guard name is reserved and unused",
           "baseline_off_cmd": "cd /repo && /venv/bin/python -m pytest -ra -q -p no:cacheprovider --timeout=900", "source_commits": [], "add_only": True},
 "engines": [{"name": "dsim", "path": "dsim/", "serves_properties": sorted(claimed),
              "kind_free_text": "deterministic simulator: real threads released one at a time at intercepted os/flock/S3/sleep/lock calls by a seeded scheduler; virtual clock; in-memory S3; fault plan; independent reader and reference model as oracles; ddmin minimiser; replay by explicit decision list"}],
 "checks": checks,
 "not_applicable": sorted(na, key=lambda n: n["property_id"]),
 "notes": "./check <ID> --replay <file> re-executes a recorded violation in a fresh interpreter. known_findings.jsonl lists genuine defects (fixed ones suppress nothing). python -m dsim.selftest <IDs> <n> re-runs every run index in three separate interpreter layouts and diffs event-log digests.",
}
json.dump(m, open(os.path.join(os.path.dirname(os.path.abspath(__file__)), "MANIFEST.json"), "w"), indent=1)
print("claimed", sorted(claimed), "na", [n["property_id"] for n in na])
