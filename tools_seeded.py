#!/venv/bin/python
"""Evaluate a seeded breaking change kept under /verif/seeded/<id>/ against the checks.

  tools_seeded.py verify <id>           confirm the change: applies to a scratch copy of /repo/src, the demonstration
                                        fails with it and passes without it, the repository's test suite still passes
  tools_seeded.py detect <id> [PROP..]  run the listed checks (default: meta.json "property") against the scratch copy
                                        with the change applied; prints which report a violation
The scratch copy lives under /dev/shm and is removed afterwards; /repo is never touched.
"""
import json
import os
import shutil
import subprocess
import sys
import time

VERIF = os.path.dirname(os.path.abspath(__file__))
BASE = "/dev/shm/dsim-seeded"
PY = "/venv/bin/python"


def scratch(name, with_tests=False):
    d = os.path.join(BASE, name)
    shutil.rmtree(d, ignore_errors=True)
    os.makedirs(d)
    shutil.copytree("/repo/src", os.path.join(d, "src"), ignore=shutil.ignore_patterns("__pycache__", "*.egg-info"))
    if with_tests:
        shutil.copytree("/repo/tests", os.path.join(d, "tests"), ignore=shutil.ignore_patterns("__pycache__"))
        for f in ("pyproject.toml", "README.md", "CHANGELOG.md"):
            if os.path.exists(os.path.join("/repo", f)):
                shutil.copy(os.path.join("/repo", f), d)
        if os.path.isdir("/repo/docs"):
            shutil.copytree("/repo/docs", os.path.join(d, "docs"))
    return d


def apply(d, patch):
    r = subprocess.run(["patch", "-p1", "-d", d, "--no-backup-if-mismatch", "-i", patch], capture_output=True, text=True)
    if r.returncode != 0:
        raise SystemExit(f"patch does not apply: {r.stdout[-800:]} {r.stderr[-300:]}")


def run_demo(d, demo, timeout=600):
    env = dict(os.environ, PYTHONPATH=os.path.join(d, "src"), PYTHONDONTWRITEBYTECODE="1")
    for k in list(env):
        if k.startswith("DATASHARD_"):
            env.pop(k)
    cmd = [PY, demo] if not os.path.basename(demo).startswith("test_") and not demo.endswith("_test.py") else \
        [PY, "-m", "pytest", "-q", "-p", "no:cacheprovider", demo]
    for _attempt in range(3):
        r = subprocess.run(cmd, env=env, capture_output=True, text=True, timeout=timeout, cwd=d)
        if r.returncode not in (-6, 134):      # pyarrow can abort() during interpreter finalisation: retry
            break
    return r.returncode, (r.stdout + r.stderr)[-1500:]


def main():
    cmd, sid = sys.argv[1], sys.argv[2]
    sdir = os.path.join(VERIF, "seeded", sid)
    meta = json.load(open(os.path.join(sdir, "meta.json")))
    patch = os.path.join(sdir, "patch.diff")
    demo = os.path.join(sdir, meta.get("demo", "demo.py"))
    if cmd == "verify":
        d = scratch(sid + "-clean", with_tests=True)
        rc0, out0 = run_demo(d, demo)
        print(f"demo on unchanged source: rc={rc0}")
        d2 = scratch(sid + "-mut", with_tests=True)
        apply(d2, patch)
        rc1, out1 = run_demo(d2, demo)
        print(f"demo with the change:     rc={rc1}\n   {out1.strip().splitlines()[-1] if out1.strip() else ''}")
        env = dict(os.environ, PYTHONPATH=os.path.join(d2, "src"), PYTHONDONTWRITEBYTECODE="1")
        t = subprocess.run([PY, "-m", "pytest", "-q", "-p", "no:cacheprovider", "--timeout=900", "tests"], env=env, cwd=d2,
                           capture_output=True, text=True)
        last = t.stdout.strip().splitlines()[-1] if t.stdout.strip() else t.stderr[-300:]
        print(f"test suite with the change: {last}")
        ok = rc0 == 0 and rc1 != 0 and ("143 passed" in last and "7 failed" in last)
        print("CONFIRMED" if ok else "NOT CONFIRMED")
        shutil.rmtree(d, ignore_errors=True)
        shutil.rmtree(d2, ignore_errors=True)
        return 0 if ok else 1
    if cmd == "detect":
        props = sys.argv[3:] or ([meta["property"]] if isinstance(meta["property"], str) else meta["property"])
        budget = os.environ.get("SEEDED_BUDGET", "45")
        d = scratch(sid + "-det")
        apply(d, patch)
        env = dict(os.environ, DSIM_SRC=os.path.join(d, "src"), PYTHONPATH=os.path.join(d, "src"), PYTHONHASHSEED="0", DSIM_REPLAY_DIR=os.path.join(d, "replays"),
                   PYTHONDONTWRITEBYTECODE="1")
        res = {}
        for p in props:
            t0 = time.time()
            r = subprocess.run([os.path.join(VERIF, "check"), p, "--tier", "quick", "--budget", budget, "--seed",
                                os.environ.get("VERIF_SEED", "5"), "--no-evidence", "--no-min"], env=env,
                               capture_output=True, text=True)
            vio = [l.strip() for l in r.stdout.splitlines() if l.strip().startswith("violated clause")]
            res[p] = {"rc": r.returncode, "violations": vio[:3], "wall_s": round(time.time() - t0, 1)}
            print(f"{sid} vs {p}: rc={r.returncode} {'DETECTED ' + vio[0][:220] if vio else 'not detected'}")
            if r.returncode == 3:
                print("   harness:", r.stderr[-600:])
        shutil.rmtree(d, ignore_errors=True)
        json.dump(res, open(os.path.join(sdir, "detection.json"), "w"), indent=1)
        return 0
    raise SystemExit("unknown command")


if __name__ == "__main__":
    sys.exit(main())
