"""C09 — retained snapshots are immutable and time travel is stable."""
from __future__ import annotations

import random
from typing import Dict, List, Optional

from dsim import core, ir, model
from . import common, history

PROP = "C09"
LEVEL = "exploration"
BUDGET = {"quick": 60, "thorough": 900}
MIN_BUDGET = {"quick": 25, "thorough": 120}
RULE = ("seeded single-writer histories (5-14 ops: appends, two-append txns, file deletes that rewrite manifests, "
        "expiries, snapshot deletions, retention, rejected and rolled-back commits, one commit failed by an injected "
        "storage error, GC with grace 0 / 1 h, clock advances, handle reopens) on local and CAS-S3 under a monotone "
        "clock, a coarse clock (equal timestamps) and a non-monotone clock (writers with skewed clocks taking turns). "
        "After EVERY step the independent reader re-reads every retained snapshot and compares file set (by content "
        "hash) and row multiset with what was recorded at its commit; snapshot_by_id must return the recorded fields; "
        "time_travel(timestamp) is queried at every retained snapshot's timestamp, +-1 ms, between neighbours and "
        "outside the range, expected = most recently COMMITTED retained snapshot with ts <= t (commit order from the "
        "flip log); deleting the current snapshot must repoint to the most recently committed survivor. Distinct = "
        "SHA-1 of write/pointer events; non-trivial = >= 2 retained snapshots were re-read after a later manifest "
        "rewrite, expiry, deletion or collection. Failing operations in the histories: schema-divergent append, rollback, and a transaction that "
        "queues a retained file again with append_files next to a missing one and rolls back.")
ASSUMPTIONS = common.BASE_ASSUMPTIONS + [
    "non-monotone timestamps are produced by per-process clock skew (different machines taking turns), reported under "
    "their own configuration label",
]
COMPONENTS = common.COMPONENTS
EXPECT_PROBES = ["reread_after_rewrite", "tt_queries", "tt_tie", "tt_nonmonotone_history", "current_deleted", "gc_ran_in_history"]


def gen(rng: random.Random, tier: str, idx: int) -> dict:
    backend = "local" if rng.random() < 0.7 else "s3"
    clock = rng.choice(["fine", "fine", "coarse", "nonmono"])
    skews = [0.0, -5.0, -3600.0, 7.0, -0.5] if clock == "nonmono" else None
    ops = history.gen_history(rng, n_hi=14 if tier == "quick" else 24, props=True, skews=skews)
    faults = []
    if rng.random() < 0.3:
        if backend == "local":
            faults.append({"kind": "error", "actor": "h", "op": "replace", "cls": rng.choice(["MANIFEST", "MLIST", "META", "HINT"]),
                           "nth": rng.randint(2, 6), "exc": "EIO"})
        else:
            faults.append({"kind": "error", "actor": "h", "op": "put", "cls": rng.choice(["MANIFEST", "MLIST", "META"]),
                           "nth": rng.randint(2, 6), "exc": "AccessDenied"})
    return {"backend": backend, "clock": "fine" if clock == "nonmono" else clock, "label": clock,
            "quantum": rng.choice([0.05, 1.0]), "ops": ops, "faults": faults}


def shrink(plan: dict):
    import copy
    for j in range(len(plan["ops"])):
        p = copy.deepcopy(plan)
        del p["ops"][j]
        if p["ops"]:
            yield p
    if plan.get("faults"):
        p = copy.deepcopy(plan)
        p["faults"] = []
        yield p
    for j, op in enumerate(plan["ops"]):
        if "skew" in op and op["skew"] != 0.0:
            p = copy.deepcopy(plan)
            p["ops"][j]["skew"] = 0.0
            yield p


def execute(plan: dict, scratch: str, replay: Optional[dict] = None) -> dict:
    common.fresh_scratch(scratch)
    hr = history.HistoryRun(plan, scratch, {"R.immutable", "R.current_recency", "R.unreadable"})
    w, sim = hr.w, hr.sim
    V: List[dict] = []
    recorded: Dict[int, tuple] = {}
    fields: Dict[int, tuple] = {}
    label = plan.get("label", plan.get("clock"))
    rewrote = [False]
    nontrivial = [False]

    def bad(clause, msg, extra=""):
        V.append({"clause": clause, "msg": msg, "sig": f"{clause}|{label}{extra}"})

    def after(rec):
        kind = rec["op"]["kind"]
        if kind in ("delete_file", "expire", "delete_snapshot", "gc") and rec["outcome"] == "ok":
            rewrote[0] = True
        if kind == "gc":
            sim.probe("gc_ran_in_history")
        try:
            st = w.state(deep=True, rows=True)
        except ir.IRError as e:
            bad("T.snapshot_unreadable", f"after op#{rec['i']} {kind}: a retained snapshot is no longer readable: {e}", f"|{kind}")
            return
        if st is None:
            return
        for s in st.snaps:
            cur = (tuple(sorted((p, f.sha) for p, f in s.files.items())), s.rows())
            if s.id not in recorded:
                recorded[s.id] = cur
                fields[s.id] = (s.ts, s.mlist, s.seq, s.op, s.schema_id)
            else:
                if recorded[s.id] != cur:
                    bad("T.snapshot_changed", f"after op#{rec['i']} {kind}: content of retained snapshot {s.id} changed", f"|{kind}")
                if fields[s.id] != (s.ts, s.mlist, s.seq, s.op, s.schema_id):
                    bad("T.snapshot_fields_changed", f"after op#{rec['i']} {kind}: fields of snapshot {s.id} changed", f"|{kind}")
        if rewrote[0] and len(st.snaps) >= 2:
            sim.probe("reread_after_rewrite")
            nontrivial[0] = True
        # library lookups (through the handle, inside the actor)
        t = hr.ctx.table
        order = [i for i in hr.chk.commit_order if st.snap(i) is not None]
        for s in st.snaps:
            try:
                got = t.snapshot_by_id(s.id)
            except Exception as e:
                bad("T.by_id_raised", f"snapshot_by_id({s.id}) raised {e!r}"[:200])
                continue
            if got is None or (got.timestamp_ms, got.manifest_list.lstrip("/"), got.sequence_number, got.operation) != \
                    (s.ts, s.mlist, s.seq, s.op):
                bad("T.by_id_mismatch", f"snapshot_by_id({s.id}) does not return the committed snapshot unchanged")
        tss = sorted({s.ts for s in st.snaps})
        if len(tss) != len(st.snaps):
            sim.probe("tt_tie")
        ots = [st.snap(i).ts for i in order]
        if any(b < a for a, b in zip(ots, ots[1:])):
            sim.probe("tt_nonmonotone_history")
        qs = set()
        for x in tss:
            qs.update((x - 1, x, x + 1))
        for a, b in zip(tss, tss[1:]):
            qs.add((a + b) // 2)
        if tss:
            qs.update((tss[0] - 1000, tss[-1] + 1000))
        for q in sorted(qs):
            cand = [i for i in order if st.snap(i).ts <= q]
            want = cand[-1] if cand else None
            try:
                got = t.time_travel(timestamp=q)
            except Exception as e:
                bad("T.time_travel_raised", f"time_travel(timestamp={q}) raised {e!r}"[:200])
                continue
            sim.probe("tt_queries")
            gid = got.snapshot_id if got is not None else None
            if gid != want:
                mono = not any(b < a for a, b in zip(ots, ots[1:]))
                bad("T.time_travel", f"after op#{rec['i']} {kind}: time_travel(timestamp={q}) returned {gid}, the most recently "
                                     f"committed retained snapshot with ts <= t is {want} (commit order {order}, ts {ots})",
                    "|monotone" if mono else "|nonmonotone")
        if kind == "delete_snapshot" and rec["outcome"] == "ok" and rec.get("flips"):
            sim.probe("current_deleted")
    hr.run(after)
    if sim.outcome == "ok":
        V = [dict(p, sig=f"{p['clause']}|{label}") for p in hr.chk.problems] + V
    else:
        V = [] if sim.outcome != "deadlock" else [{"clause": "L.deadlock", "msg": "deadlock"}]
    seen = set()
    uniq = []
    for v in V:
        if v["sig"] not in seen:
            seen.add(v["sig"])
            uniq.append(v)
    res = common.assemble(hr.ph, uniq, nontrivial[0], f"{plan['backend']}/{label}",
                          {"ops": [(o["kind"], o.get("skew")) for o in plan["ops"]], "states": hr.chk.state_sigs},
                          hr.chk.state_sigs)
    w.cleanup()
    return res
