"""C02 — readers observe only whole committed snapshots."""
from __future__ import annotations

import random
from typing import List, Optional

from dsim import core, ir
from . import common
from .common import Phase, RefineChecker

PROP = "C02"
LEVEL = "exploration"
BUDGET = {"quick": 60, "thorough": 900}
MIN_BUDGET = {"quick": 25, "thorough": 120}
RULE = ("seeded plans: 1-2 reader actors (own handle, or a handle shared with a writer thread) each issuing 2-5 reads "
        "drawn from {scan, scan(parallel=2), scan_batches(1|2|1000), iter_records, row_count, filtered / projected "
        "variants} against 1-3 writers doing appends, two-append transactions (optionally with a pause between the "
        "two writes), file deletes, explicit rollbacks and commits forced to fail (schema-divergent append; one "
        "injected pre-commit OSError / S3 error); table pre-seeded with 0-2 snapshots; local and CAS-S3; scheduler "
        "random/PCT at seam granularity, plus targeted holds parking a reader after its n-th pointer/metadata/manifest/data "
        "read until a writer has finished an operation. Oracle: a read with flip interval [i, r] must return exactly the row "
        "multiset of the committed state S_j for some j in [i, r]; per handle the feasible j is non-decreasing; "
        "fault-free reads never raise. Distinct = SHA-1 of write/lock/pointer events; non-trivial = at least one "
        "read overlapped a pointer flip (r > i).")
ASSUMPTIONS = common.BASE_ASSUMPTIONS + [
    "a read's interval is [pointer flips completed at invocation, pointer flips completed at return] in the "
    "simulator's global event order; generators are consumed to exhaustion by the reader",
]
COMPONENTS = common.COMPONENTS
EXPECT_PROBES = ["read_overlapped_flip", "read_saw_old", "read_saw_new", "pool_map", "failed_commit", "rollback_op"]

READS = [
    {"kind": "scan", "api": "scan"},
    {"kind": "scan", "api": "scan_parallel", "workers": 2},
    {"kind": "scan", "api": "scan_batches", "batch": 1},
    {"kind": "scan", "api": "scan_batches", "batch": 2},
    {"kind": "scan", "api": "scan_batches", "batch": 1000},
    {"kind": "scan", "api": "iter_records"},
    {"kind": "row_count"},
    {"kind": "scan", "api": "scan", "filter": {"v": (">=", 0)}},
    {"kind": "scan", "api": "scan_batches", "batch": 2, "filter": {"v": ("<", 100)}},
    {"kind": "scan", "api": "scan", "columns": ["tag", "v"]},
    {"kind": "scan", "api": "scan", "verify": False},
    {"kind": "scan", "api": "scan_parallel", "workers": 3, "verify": False},
]


def gen_revert(rng: random.Random, backend: str) -> dict:
    """Directed profile: one reader repeats ONE read through its handle while a writer commits and then takes the
    commit back (delete of the current snapshot); the reader is parked inside its first read across the commit."""
    one = dict(rng.choice(READS))
    reader = {"name": "r0", "proc": "pr0", "ops": [dict(one) for _ in range(rng.randint(2, 4))], "role": "reader"}
    w_ops = [{"kind": "append", "tag": "w0.x", "n": rng.randint(1, 2)}, {"kind": "delete_snapshot", "k": -1}]
    if rng.random() < 0.4:
        w_ops.append({"kind": "append", "tag": "w0.y", "n": 1})
    writer = {"name": "w0", "proc": "pw0", "ops": w_ops, "role": "writer"}
    rd = "open" if backend == "local" else "get"
    pol = common.gen_policy(rng)
    pol["holds"] = [{"actor": "r0", "op": rd, "cls": rng.choice(["META", "META", "HINT", "MLIST"]),
                     "nth": rng.choice([1, 2, 2, 3]), "until": "w0", "until_ops": 1}]
    setup = [{"kind": "append", "tag": f"s{k}", "n": rng.randint(1, 2)} for k in range(rng.choice([1, 1, 2]))]
    return {"backend": backend, "setup": setup, "actors": [writer, reader], "policy": pol, "faults": [], "profile": "revert"}


def gen(rng: random.Random, tier: str, idx: int) -> dict:
    backend = "local" if rng.random() < 0.65 else "s3"
    if idx % 5 == 4:
        return gen_revert(rng, backend)
    nw = rng.randint(1, 3)
    actors = []
    for i in range(nw):
        ops = []
        for j in range(rng.randint(1, 3)):
            tag = f"w{i}.{j}"
            r = rng.random()
            if r < 0.40:
                ops.append({"kind": "append", "tag": tag, "n": rng.randint(1, 3),
                            "style": rng.choice(["records", "with", "explicit"])})
            elif r < 0.60:
                ops.append({"kind": "multi", "tag": tag, "n": rng.randint(1, 2), "style": rng.choice(["with", "explicit"]),
                            "gap": rng.choice([0, 0, 0.5])})
            elif r < 0.75:
                ops.append({"kind": "delete_file", "tag": tag, "k": rng.randint(0, 4),
                            "with_append": rng.random() < 0.4})
            elif r < 0.82:
                ops.append({"kind": "rollback", "tag": tag, "n": 1})
            elif r < 0.90:
                ops.append({"kind": "delete_snapshot", "k": rng.choice([-1, -1, 0, 1])})
            else:
                ops.append({"kind": "bad_append", "tag": tag})
        if rng.random() < 0.2:
            # commit, then take it back: the table returns to a snapshot it has been at before
            ops = [{"kind": "append", "tag": f"w{i}.x", "n": rng.randint(1, 2)}, {"kind": "delete_snapshot", "k": -1}] + ops[:1]
        actors.append({"name": f"w{i}", "proc": f"pw{i}", "ops": ops, "role": "writer"})
    nr = rng.randint(1, 2)
    for i in range(nr):
        if rng.random() < 0.35:
            # the same read repeated through one handle (per-handle caches / memos are keyed by what an earlier
            # read of the same kind saw)
            one = dict(rng.choice(READS))
            ops = [dict(one) for _ in range(rng.randint(2, 4))]
        else:
            ops = [dict(rng.choice(READS)) for _ in range(rng.randint(2, 5))]
        shared = rng.random() < 0.25
        actors.append({"name": f"r{i}", "proc": "pw0" if shared else f"pr{i}", "ops": ops, "role": "reader"})
    faults = []
    if rng.random() < 0.25:
        wi = rng.randrange(nw)
        if backend == "local":
            faults.append({"kind": "error", "actor": f"w{wi}", "op": "replace",
                           "cls": rng.choice(["MANIFEST", "MLIST", "META", "DATA"]), "nth": 1, "exc": "EIO"})
        else:
            faults.append({"kind": "error", "actor": f"w{wi}", "op": "put",
                           "cls": rng.choice(["MANIFEST", "MLIST", "META"]), "nth": 1, "exc": "AccessDenied"})
    setup = [{"kind": "append", "tag": f"s{k}", "n": rng.randint(1, 2)} for k in range(rng.choice([0, 0, 1, 2]))]
    pol = common.gen_policy(rng)
    if rng.random() < 0.45:
        # park a reader in the middle of a read (after its n-th pointer / metadata / manifest-list / data read)
        # until a writer has finished an operation: the read then overlaps a pointer flip for certain
        if backend == "local":
            site = rng.choice([("open", "META"), ("open", "HINT"), ("open", "MLIST"), ("open", "MANIFEST"), ("open", "DATA")])
        else:
            site = rng.choice([("get", "META"), ("get", "HINT"), ("get", "MLIST"), ("get", "MANIFEST"), ("get", "DATA")])
        pol["holds"] = [{"actor": f"r{rng.randrange(nr)}", "op": site[0], "cls": site[1], "nth": rng.choice([1, 2, 2, 3, 4]),
                         "until": f"w{rng.randrange(nw)}", "until_ops": 1}]
    plan = {"backend": backend, "setup": setup, "actors": actors, "policy": pol, "faults": faults}
    if any(a["role"] == "reader" and a["proc"].startswith("pw") for a in actors) and rng.random() < 0.5:
        plan["preempt_p"] = rng.choice([0.002, 0.01, 0.05])     # threads on one handle: switch between any two lines
    return plan


def shrink(plan: dict):
    yield from common.generic_shrink(plan)


def execute(plan: dict, scratch: str, replay: Optional[dict] = None) -> dict:
    common.fresh_scratch(scratch)
    seed = plan.get("run_seed", 0)
    backend = plan["backend"]
    ph0 = common.run_setup(scratch, backend, seed, list(plan.get("setup", [])))
    ph = Phase(plan, scratch, backend, seed, common.make_policy(plan.get("policy", {}), seed ^ 0x5EED, replay),
               faults=plan.get("faults"), start=ph0.sim.now + 1.0, store=ph0.world.store)
    w = ph.world
    if plan.get("preempt_p"):
        ph.sim.extra["preempt_p"] = plan["preempt_p"]
        ph.sim.max_steps = 200000
    chk = RefineChecker(w, clauses=set())      # states only; C01 owns the refinement clauses
    s0 = w.state()
    byproc = {}
    for a in plan["actors"]:
        byproc.setdefault(a["proc"], []).append(a)
    for proc, acts in byproc.items():
        if len(acts) == 1:
            ph.actor(proc, acts[0]["name"], acts[0]["ops"])
        else:
            ph.shared(proc, [(a["name"], a["ops"]) for a in acts])
    ph.run()
    V: List[dict] = []
    sim = ph.sim
    faulty_actors = {f["actor"] for f in sim.fired_log}
    overlapped = False
    if sim.outcome == "ok":
        # committed states S_0..S_n in flip order
        states = [s0]
        ok_states = True
        for fl in w.flips:
            try:
                states.append(chk.state_for(fl["new"]))
            except ir.IRError as e:
                V.append({"clause": "V.state_unreadable", "msg": f"committed state unreadable: {e}"})
                ok_states = False
                break
        if ok_states:
            rows_of = [s.current_rows() if s is not None else () for s in states]
            count_of = [sum(f.record_count for f in s.current().files.values()) if s and s.current() else 0
                        for s in states]
            last_j = {}
            for rec in w.history:
                kind = rec["op"]["kind"]
                if kind not in ("scan", "row_count"):
                    if kind in ("bad_append",) or (rec["outcome"] == "raise"):
                        sim.probe("failed_commit")
                    if kind == "rollback":
                        sim.probe("rollback_op")
                    continue
                lo, hi = rec["invoke_flips"], rec.get("ret_flips", len(w.flips))
                api = rec["op"].get("api", "row_count")
                if hi > lo:
                    overlapped = True
                    sim.probe("read_overlapped_flip")
                if rec["outcome"] == "raise":
                    V.append({"clause": "V.read_raised",
                              "msg": f"{rec['actor']} {api} raised {rec.get('exc')}: {rec.get('msg')} in a run whose "
                                     f"only faults hit writers {sorted(faulty_actors)}",
                              "sig": f"V.read_raised|{rec.get('exc')}|{(rec.get('msg') or '')[:40]}"})
                    continue
                if rec["outcome"] != "ok":
                    continue
                res = rec.get("resolved", {})
                if kind == "row_count":
                    feas = [j for j in range(lo, hi + 1) if count_of[j] == res.get("count")]
                else:
                    got = res.get("rows")
                    want_proj = None
                    feas = [j for j in range(lo, hi + 1) if _match(rows_of[j], got, rec["op"])]
                if not feas:
                    alls = [j for j in range(len(states)) if (count_of[j] == res.get("count") if kind == "row_count"
                                                              else _match(rows_of[j], res.get("rows"), rec["op"]))]
                    what = (f"equals committed state(s) {alls} outside its interval" if alls
                            else "equals NO committed state (partial / mixed snapshot)")
                    V.append({"clause": "V.not_a_snapshot" if not alls else "V.stale_or_future",
                              "msg": f"{rec['actor']} {api} with flip interval [{lo},{hi}] returned "
                                     f"{res.get('count') if kind == 'row_count' else len(res.get('rows') or ())} rows: {what}",
                              "sig": f"{'V.not_a_snapshot' if not alls else 'V.stale_or_future'}|{api}"})
                    continue
                key = rec["proc"] + "|" + rec["actor"]
                prev = last_j.get(key, 0)
                ge = [j for j in feas if j >= prev]
                if not ge:
                    V.append({"clause": "V.backwards",
                              "msg": f"{rec['actor']} {api}: feasible states {feas} all precede the state {prev} "
                                     f"already observed through this handle",
                              "sig": f"V.backwards|{api}"})
                else:
                    last_j[key] = ge[0]
                    sim.probe("read_saw_new" if ge[0] == hi and hi > lo else "read_saw_old" if hi > lo else "read_quiet")
    elif sim.outcome == "deadlock":
        V.append({"clause": "L.deadlock", "msg": "actors blocked forever"})
    res = common.assemble(ph, V, overlapped, f"{backend}", common.trace_sample(ph, plan), chk.state_sigs)
    w.cleanup()
    return res


def _match(state_rows, got, op) -> bool:
    if got is None:
        return False
    cols = op.get("columns")
    flt = op.get("filter")
    rows = list(state_rows)
    if flt:
        out = []
        for r in rows:
            d = dict(r)
            ok = True
            for c, (o, val) in flt.items():
                x = d.get(c)
                if x is None:
                    ok = False
                elif o == ">=":
                    ok = ok and x >= val
                elif o == "<":
                    ok = ok and x < val
            if ok:
                out.append(r)
        rows = out
    if cols:
        rows = [tuple((k, v) for (k, v) in r if k in cols) for r in rows]
    return tuple(sorted(rows, key=repr)) == tuple(sorted(got, key=repr))
