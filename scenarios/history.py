"""Shared single-writer history machinery for C09 (immutability / time travel) and C15 (well-formedness)."""
from __future__ import annotations

import random
from typing import Any, Dict, List, Optional

from dsim import core, ir, model, world
from . import common
from .common import Phase, RefineChecker

MLOG_MAX = "write.metadata.previous-versions-max"
RETENTION = "datashard.snapshot.retention-count"


def gen_history(rng: random.Random, n_lo=5, n_hi=14, props=True, fails=True, gc=True, skews=None) -> List[dict]:
    ops: List[dict] = []
    n = rng.randint(n_lo, n_hi)
    open_ids: List[int] = []
    nid = 0
    for j in range(n):
        tag = f"h{j}"
        r = rng.random()
        op: Dict[str, Any]
        if r < 0.05:
            # a pre-built file registered under the plain relative spelling ('data/f', what write_data_file returns) or the
            # rooted one ('/data/f', what append_data stores): later deletes name it under either spelling
            op = {"kind": "files_append", "tag": tag, "n": rng.randint(1, 2), "spell": rng.choice(["canon", "noslash", "noslash"])}
        elif r < 0.30:
            op = {"kind": "append", "tag": tag, "n": rng.randint(1, 2), "style": rng.choice(["records", "with", "explicit"])}
        elif r < 0.38:
            op = {"kind": "multi", "tag": tag, "n": 1, "parts": rng.choice([2, 3, 3, 4])}
        elif r < 0.52:
            op = {"kind": "delete_file", "tag": tag, "k": rng.randint(0, 5), "with_append": rng.random() < 0.35,
                  "slash": rng.random() < 0.6}
            if rng.random() < 0.35:
                op["k2"] = rng.randint(0, 5)       # one call naming two files (often of two manifests)
        elif r < 0.62:
            op = {"kind": "expire", "tag": tag, "k": rng.randint(0, 7), "delta": rng.choice([0, 1, -1]),
                  "with_append": rng.random() < 0.35}
        elif r < 0.72:
            op = {"kind": "delete_snapshot", "k": rng.randint(0, 7)}
        elif r < 0.78 and props:
            which = rng.random()
            if which < 0.5:
                op = {"kind": "set_prop", "key": RETENTION, "value": str(rng.choice([1, 2, 3, 5]))}
            elif which < 0.85:
                op = {"kind": "set_prop", "key": MLOG_MAX, "value": str(rng.choice([1, 2, 5]))}
            else:
                op = {"kind": "set_prop", "key": rng.choice([RETENTION, MLOG_MAX]), "value": rng.choice(["x", "0", "-1"])}
        elif r < 0.84 and fails:
            op = rng.choice([{"kind": "bad_append", "tag": tag}, {"kind": "rollback", "tag": tag, "n": 1},
                             {"kind": "requeue_fail", "tag": tag, "k": rng.randint(0, 5), "with": rng.random() < 0.5}])
        elif r < 0.90 and gc:
            op = {"kind": "gc", "grace_ms": rng.choice([0, 3600000])}
        elif r < 0.95:
            op = {"kind": "sleep", "dt": rng.choice([0.0005, 0.5, 30.0, 4000.0])}
        else:
            op = {"kind": "open"}
        if skews:
            op["skew"] = rng.choice(skews)
        ops.append(op)
    return ops


class HistoryRun:
    """Executes a history in one actor, calling `after_step(rec)` (inside the actor) after every op."""

    def __init__(self, plan: dict, scratch: str, clauses: Optional[set]):
        self.plan = plan
        seed = plan.get("run_seed", 0)
        backend = plan["backend"]
        self.ph = Phase(plan, scratch, backend, seed, core.Policy(), clock_mode=plan.get("clock", "fine"),
                        clock_quantum=plan.get("quantum", 1.0), max_steps=80000, faults=plan.get("faults"))
        self.w, self.sim = self.ph.world, self.ph.sim
        self.chk = RefineChecker(self.w, clauses=clauses)
        self.V: List[dict] = []
        self.ctx = world.Ctx(self.w, "h", lambda: self.w.open_table(create=True))

    def run(self, after_step) -> str:
        ops = [{"kind": "open"}] + list(self.plan["ops"])

        def body():
            a = self.sim.me()
            for i, op in enumerate(ops):
                if "skew" in op:
                    a.proc.skew = float(op["skew"])
                    self.ctx.drop()          # another machine takes its turn with a fresh handle
                    self.ctx._get = lambda: self.w.open_table(create=False)
                world.run_ops(self.ctx, [op])
                rec = self.w.history[-1]
                rec["i"] = i
                after_step(rec)
        self.sim.spawn(self.sim.proc("p0"), "h", body)
        return self.ph.run()
