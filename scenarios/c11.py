"""C11 — accepted appends are exact; rejected ones leave no trace; scans keep working
(handle / history / schema-argument part; value classes are only sampled)."""
from __future__ import annotations

import copy
import io
import math
import os
import random
from typing import Any, Dict, List, Optional

from dsim import core, ir, world
from . import common
from .common import Phase

PROP = "C11"
LEVEL = "exploration"
BUDGET = {"quick": 60, "thorough": 900}
MIN_BUDGET = {"quick": 25, "thorough": 120}
RULE = ("seeded multi-append histories (3-8 steps) on local / CAS-S3 through FRESH and REUSED handles (the Arrow-schema "
        "cache is per handle and keyed by schema id); each step appends records or a pre-built parquet file with a "
        "schema argument drawn from {omitted, identical, reordered fields, re-numbered field ids, other schema_id, "
        "type change, nullability change, extra field, missing field} and rows drawn from a small adversarial pool "
        "(boundary ints, fractional floats into integer columns, NaN/inf, float32 overflow, unicode, None in required "
        "/ optional fields, wrong Python types, unknown field). Oracle after every step: a rejected append leaves the "
        "independent reader's state key and reachable set unchanged; an accepted one makes scan() and one filtered "
        "scan per column succeed and equal the reference multiset normalised to the declared column type; a value the "
        "declared type cannot represent must be rejected. Distinct = (backend, sequence of (handle freshness, schema "
        "variant, row classes, outcome)); non-trivial = at least one accepted and one rejected append, or a non-"
        "identical schema argument was accepted. The value-class dimension is sampled, not enumerated; long strings (cut character at "
        "index 16 / 32 / 36 / 64 / 200: non-BMP, U+10FFFF, U+FFFF) are probed with ==, >=, >, in after they were accepted.")
ASSUMPTIONS = common.BASE_ASSUMPTIONS + [
    "enumerating column-type x value-class combinations is input generation, which this technique does not add to; only "
    "a fixed adversarial pool is sampled inside the histories",
]
COMPONENTS = common.COMPONENTS
EXPECT_PROBES = ["accepted", "rejected", "fresh_handle_append", "reused_handle_append", "nonidentical_schema_accepted",
                 "prebuilt_file_accepted", "prebuilt_file_rejected"]

FIELDS = [
    {"id": 1, "name": "tag", "type": "string", "required": True},
    {"id": 2, "name": "v", "type": "long", "required": False},
    {"id": 3, "name": "x", "type": "double", "required": False},
    {"id": 4, "name": "i", "type": "int", "required": False},
    {"id": 5, "name": "f", "type": "float", "required": False},
]
VARIANTS = ["omitted", "identical", "reordered", "renumbered", "other_schema_id", "type_change", "nullability",
            "extra_field", "missing_field"]
# (class name, partial row) ; 'tag' is filled in per row
POOL = [
    ("plain", {"v": 5, "x": 1.5, "i": 7, "f": 0.5}),
    ("nulls", {"v": None, "x": None}),
    ("absent", {}),
    ("int_min", {"v": -2 ** 63, "i": -2 ** 31}),
    ("int_max", {"v": 2 ** 63 - 1, "i": 2 ** 31 - 1}),
    ("int_overflow", {"v": 2 ** 63}),
    ("int32_overflow", {"i": 2 ** 31}),
    ("frac_into_long", {"v": 1.5}),
    ("frac_into_int", {"i": 2.75}),
    ("integral_float_into_long", {"v": 4.0}),
    ("nan_double", {"x": float("nan")}),
    ("double_integral", {"x": 3.0}),
    ("inf_double", {"x": float("inf")}),
    ("neg_zero", {"x": -0.0}),
    ("float32_overflow", {"f": 1e40}),
    ("float32_inexact", {"f": 0.1}),
    ("float32_rounds_to_inf", {"f": 3.4028235677973366e38}),     # the smallest double that rounds to infinity
    ("float32_largest", {"f": 3.4028235677973362e38}),           # the largest double that still rounds to FLT_MAX
    ("int_into_double", {"x": 3}),
    ("bigint_into_double", {"x": 2 ** 53 + 1}),
    ("str_into_long", {"v": "3"}),
    ("bool_into_long", {"v": True}),
    ("int_into_string_tag", {"__tag": 5}),
    ("none_required", {"__tag": None}),
    ("unicode", {"__tag": "é中\U0001F600 z"}),
    ("unknown_field", {"zz": 1}),
    ("nan_into_long", {"v": float("nan")}),
    # long strings (column statistics are kept per file and used for pruning): the character at index P is the one a
    # prefix-truncating statistic would cut at. Appended at the END of the pool so that earlier plans keep their meaning.
    ("long_bmp_40", {"__tagpad": [36, "z"]}),
    ("long_nonbmp_at_16", {"__tagpad": [16, "\U0001F600"]}),
    ("long_nonbmp_at_32", {"__tagpad": [32, "\U0001F600"]}),
    ("long_nonbmp_at_64", {"__tagpad": [64, "\U0010FFFF"]}),
    ("long_uffff_at_32", {"__tagpad": [32, "\uffff\uffff"]}),
    ("long_200", {"__tagpad": [200, "\u00e9"]}),
]


def variant_fields(name: str) -> Optional[list]:
    f = copy.deepcopy(FIELDS)
    if name == "omitted":
        return None
    if name == "identical" or name == "other_schema_id":
        return f
    if name == "reordered":
        return [f[0], f[2], f[1], f[4], f[3]]
    if name == "renumbered":
        f[1]["id"], f[2]["id"] = 3, 2
        f[3]["id"], f[4]["id"] = 15, 14
        return f
    if name == "type_change":
        f[1]["type"] = "double"
        return f
    if name == "nullability":
        f[1]["required"] = True
        return f
    if name == "extra_field":
        return f + [{"id": 6, "name": "extra", "type": "string", "required": False}]
    if name == "missing_field":
        return f[:-1]
    raise ValueError(name)


SL_SCHEMAS = {
    "a": [{"id": 1, "name": "a", "type": "long", "required": False}],
    "b": [{"id": 1, "name": "b", "type": "string", "required": False}],
    "ab": [{"id": 1, "name": "a", "type": "long", "required": False}, {"id": 2, "name": "b", "type": "string", "required": False}],
}


TY_FIELDS = [
    {"id": 1, "name": "k", "type": "long", "required": True},
    {"id": 2, "name": "d", "type": "date", "required": False},
    {"id": 3, "name": "ts", "type": "timestamp", "required": False},
    {"id": 4, "name": "t", "type": "time", "required": False},
    {"id": 5, "name": "n", "type": "long", "required": False},
    {"id": 6, "name": "m", "type": "int", "required": False},
    {"id": 7, "name": "n2", "type": {"type": "long"}, "required": False},      # the dict spelling of a primitive type
    {"id": 8, "name": "ts2", "type": {"type": "timestamp"}, "required": False},
]


def ty_value(name: str):
    """Value classes for temporal / exact-numeric columns: (column, value).  Built at run time (not JSON-able)."""
    import datetime as dt
    from decimal import Decimal
    tz5 = dt.timezone(dt.timedelta(hours=5))
    return {
        "date_ok": ("d", dt.date(2024, 3, 1)),
        "datetime_into_date": ("d", dt.datetime(2024, 3, 1, 23, 59, 58)),
        "float_into_date": ("d", 19000.9),
        "ts_ok": ("ts", dt.datetime(2024, 3, 1, 12, 0, 0, 250000)),
        "ts_tz_aware": ("ts", dt.datetime(2024, 3, 1, 12, 0, 0, tzinfo=tz5)),
        "float_into_ts": ("ts", 1700000000.75),
        "time_ok": ("t", dt.time(1, 2, 3)),
        "float_into_time": ("t", 1.9),
        "decimal_frac_into_long": ("n", Decimal("7.9")),
        "decimal_frac_into_int": ("m", Decimal("-0.5")),
        "long_ok": ("n", 12345678901),
        "decimal_into_date": ("d", Decimal("1.5")),
        "decimal_into_ts": ("ts", Decimal("1727300000.25")),
        "frac_into_dict_typed_long": ("n2", 7.9),
        "tz_aware_into_dict_typed_ts": ("ts2", dt.datetime(2024, 3, 1, 12, 0, 0, tzinfo=tz5)),
        "dict_typed_long_ok": ("n2", 41),
    }[name]


TY_CLASSES = ["date_ok", "datetime_into_date", "float_into_date", "ts_ok", "ts_tz_aware", "float_into_ts", "time_ok",
              "float_into_time", "decimal_frac_into_long", "decimal_frac_into_int", "long_ok", "decimal_into_date",
              "decimal_into_ts", "frac_into_dict_typed_long", "tz_aware_into_dict_typed_ts", "dict_typed_long_ok"]


def gen(rng: random.Random, tier: str, idx: int) -> dict:
    backend = "local" if rng.random() < 0.7 else "s3"
    if rng.random() < 0.06:
        # temporal and exact-numeric columns: each appended value is either refused or read back EQUAL to what was
        # supplied (a datetime cut to a date, a zone dropped, a fraction truncated is a silently altered value)
        return {"backend": backend, "mode": "types",
                "steps": [{"cls": rng.choice(TY_CLASSES), "fresh": rng.random() < 0.5} for _ in range(rng.randint(2, 6))]}
    if rng.random() < 0.1:
        # a table created WITHOUT a schema (legal): every append passes its own schema; same or different from the
        # earlier ones, under one schema_id or another, through a reused or a fresh handle
        first = rng.choice(list(SL_SCHEMAS))
        steps = [{"schema": first if (j == 0 or rng.random() < 0.55) else rng.choice(list(SL_SCHEMAS)),
                  "sid": rng.choice([1, 1, 2]), "fresh": rng.random() < 0.5, "n": rng.randint(1, 2)}
                 for j in range(rng.randint(2, 5))]
        return {"backend": backend, "mode": "schemaless", "steps": steps}
    steps = []
    for j in range(rng.randint(3, 8)):
        if rng.random() < 0.22:
            steps.append({"kind": "files", "variant": rng.choice(["match", "match", "reordered", "type", "extra", "nullable",
                                                                  "missing_col", "garbage"]),
                          "fresh": rng.random() < 0.5, "n": rng.randint(1, 2)})
        else:
            classes = [rng.randrange(len(POOL)) for _ in range(rng.randint(1, 3))]
            if rng.random() < 0.08:
                # one file holding a single distinct finite value plus NaN: bounds min == max
                names = [c[0] for c in POOL]
                classes = [names.index(rng.choice(["double_integral", "plain"])), names.index("nan_double")]
            if rng.random() < 0.5:
                classes = [0] + [c for c in classes if POOL[c][0] in ("plain", "nulls", "absent", "unicode", "int_min",
                                                                       "int_max", "nan_double", "int_into_double")
                                 or POOL[c][0].startswith("long_")]
            steps.append({"kind": "records", "variant": rng.choice(VARIANTS if rng.random() < 0.7 else ["omitted", "identical"]),
                          "fresh": rng.random() < 0.5, "rows": classes})
    return {"backend": backend, "steps": steps}


def shrink(plan: dict):
    for j in range(len(plan["steps"])):
        if len(plan["steps"]) > 1:
            p = copy.deepcopy(plan)
            del p["steps"][j]
            yield p
    for j, s in enumerate(plan["steps"]):
        if s.get("kind") == "records" and len(s["rows"]) > 1:
            for r in range(len(s["rows"])):
                p = copy.deepcopy(plan)
                del p["steps"][j]["rows"][r]
                yield p
        if s.get("fresh"):
            p = copy.deepcopy(plan)
            p["steps"][j]["fresh"] = False
            yield p


def mk_row(step: int, k: int, cls: int) -> dict:
    name, part = POOL[cls]
    row: Dict[str, Any] = {"tag": f"s{step}.{k}.{name}"}
    for key, val in part.items():
        if key == "__tag":
            row["tag"] = val
        elif key == "__tagpad":
            p, ch = val
            row["tag"] = (f"s{step}.{k}." + "k" * p)[:p] + ch + "-tail"
        else:
            row[key] = val
    return row


def representable(row: dict) -> bool:
    """Can every value be represented by its declared column type without silent alteration?"""
    types = {f["name"]: f for f in FIELDS}
    for k, v in row.items():
        if k not in types:
            return False
        t = types[k]["type"]
        if v is None:
            if types[k]["required"]:
                return False
            continue
        if t == "string":
            if not isinstance(v, str):
                return False
        elif t in ("long", "int"):
            if isinstance(v, bool):
                return False
            if isinstance(v, float):
                if v != v or v in (float("inf"), float("-inf")) or v != int(v):
                    return False
                v = int(v)
            if not isinstance(v, int):
                return False
            lim = 63 if t == "long" else 31
            if not (-2 ** lim <= v <= 2 ** lim - 1):
                return False
        elif t in ("double", "float"):
            if isinstance(v, bool) or not isinstance(v, (int, float)):
                return False
            if isinstance(v, int) and float(v) != v:
                return False
            if t == "float" and isinstance(v, float) and math.isfinite(v):
                # representable = rounds to a FINITE 32-bit float (derived, not a copied constant)
                import struct
                try:
                    if not math.isfinite(struct.unpack("f", struct.pack("f", v))[0]):
                        return False
                except OverflowError:
                    return False
    if "tag" not in row:
        return False
    return True


def normalise(row: dict) -> tuple:
    import struct
    types = {f["name"]: f["type"] for f in FIELDS}
    out = {}
    for k, v in row.items():
        if v is None:
            continue
        t = types[k]
        if t in ("long", "int"):
            v = int(v)
        elif t == "double":
            v = float(v)
        elif t == "float":
            v = struct.unpack("f", struct.pack("f", float(v)))[0]
        out[k] = v
    return ir.row_key(out)


def py_filter(rows: List[tuple], col: str, op: str, val) -> List[tuple]:
    out = []
    for r in rows:
        d = dict(r)
        x = d.get(col)
        if op == "is_not_null":
            if x is not None:
                out.append(r)
            continue
        if op == "!=":
            # row-level semantics of the engine: NULL never matches, NaN differs from every number
            if x is not None and (x == "NaN" or x != val):
                out.append(r)
            continue
        if op == "in":
            # the value set is cast to the column's type (32-bit float column: compare after rounding)
            import struct
            vals = [struct.unpack("f", struct.pack("f", float(v)))[0] for v in val] if col == "f" else list(val)
            if x is not None and x != "NaN" and x in vals:
                out.append(r)
            continue
        if x is None or x == "NaN":
            continue
        # comparison operators: the engine compares the stored value (a 32-bit float widened to double) with the
        # filter value AS A DOUBLE - only the 'in' value set is cast to the column type
        if op == ">" and x > val:
            out.append(r)
        elif op == "<" and x < val:
            out.append(r)
        if op == "==" and x == val:
            out.append(r)
        elif op == ">=" and x >= val:
            out.append(r)
    return out


def execute_types(plan: dict, scratch: str) -> dict:
    common.fresh_scratch(scratch)
    seed = plan.get("run_seed", 0)
    backend = plan["backend"]
    ph = Phase(plan, scratch, backend, seed, core.Policy(), max_steps=60000)
    w, sim = ph.world, ph.sim
    V: List[dict] = []
    trace = []
    flags = {"acc": 0, "rej": 0}

    def body():
        import datashard
        from datashard import Schema
        t = datashard.create_table(w.table_path, schema=Schema(schema_id=1, fields=copy.deepcopy(TY_FIELDS)))
        for si, st in enumerate(plan["steps"]):
            if st.get("fresh"):
                t = datashard.load_table(w.table_path)
            col, val = ty_value(st["cls"])
            desc = f"step {si}: append {{k: {si}, {col}: {val!r}}} ({st['cls']})"
            try:
                t.append_records([{"k": si, col: val}])
                accepted = True
            except (core.SimDead, core.SimKilled, NameError, ImportError, AttributeError):
                raise
            except Exception as e:
                accepted = False
                trace.append((desc, f"rejected {type(e).__name__}"))
            if not accepted:
                flags["rej"] += 1
                sim.probe("typed_value_rejected")
                continue
            flags["acc"] += 1
            sim.probe("typed_value_accepted")
            trace.append((desc, "accepted"))
            try:
                rows = datashard.load_table(w.table_path).scan()
            except (core.SimDead, core.SimKilled):
                raise
            except Exception as e:
                V.append({"clause": "E.accepted_breaks_scan", "sig": f"E.accepted_breaks_scan|types|{st['cls']}",
                          "msg": f"[{backend}] {desc}: accepted, then scan() raises {type(e).__name__}: {str(e)[:120]}"})
                return
            got = [r for r in rows if r.get("k") == si]
            try:
                same = len(got) == 1 and got[0].get(col) == val and type(got[0].get(col)) is not bool
            except TypeError:
                same = False
            if not same:
                V.append({"clause": "E.unrepresentable_accepted", "sig": f"E.unrepresentable_accepted|types|{st['cls']}",
                          "msg": f"[{backend}] {desc}: accepted, but scans return {got[0].get(col)!r} for it" if got else
                                 f"[{backend}] {desc}: accepted, but the row is not returned"})
                return
    sim.spawn(sim.proc("p0"), "h", body)
    ph.run()
    if sim.outcome != "ok":
        V = []
    res = common.assemble(ph, V[:1], flags["acc"] > 0 and flags["rej"] > 0, backend + "/types", {"steps": trace})
    import hashlib
    res["sched_sig"] = hashlib.sha1(repr((backend, trace)).encode()).hexdigest()
    w.cleanup()
    return res


def execute_schemaless(plan: dict, scratch: str) -> dict:
    common.fresh_scratch(scratch)
    seed = plan.get("run_seed", 0)
    backend = plan["backend"]
    ph = Phase(plan, scratch, backend, seed, core.Policy(), max_steps=60000)
    w, sim = ph.world, ph.sim
    V: List[dict] = []
    trace = []
    model_rows: List[tuple] = []
    flags = {"acc": 0, "rej": 0, "diff": 0}

    def body():
        import datashard
        from datashard import Schema
        t = datashard.create_table(w.table_path)
        first = None
        for si, st in enumerate(plan["steps"]):
            if st.get("fresh"):
                t = datashard.load_table(w.table_path)
            fields = copy.deepcopy(SL_SCHEMAS[st["schema"]])
            names = [f["name"] for f in fields]
            rows = [{n: (si * 10 + k if n == "a" else f"s{si}.{k}") for n in names} for k in range(st["n"])]
            rel = "first" if first is None else ("same" if st["schema"] == first else "differs")
            desc = (f"schema-less table, step {si}: append {st['n']} row(s) with schema {names} (id {st['sid']}, {rel} as the "
                    f"first append's) through a {'fresh' if st.get('fresh') else 'reused'} handle")
            try:
                t.append_records([dict(r) for r in rows], schema=Schema(schema_id=st["sid"], fields=fields))
                accepted = True
            except (core.SimDead, core.SimKilled, NameError, ImportError, AttributeError):
                raise
            except Exception as e:
                accepted = False
                trace.append((desc, f"rejected {type(e).__name__}"))
            if not accepted:
                flags["rej"] += 1
                sim.probe("schemaless_rejected")
                continue
            trace.append((desc, "accepted"))
            flags["acc"] += 1
            sim.probe("schemaless_accepted")
            if first is None:
                first = st["schema"]
            if rel == "differs":
                flags["diff"] += 1
                sim.probe("schemaless_other_schema_accepted")
            model_rows.extend(ir.row_key(r) for r in rows)
            sig = f"schemaless|{rel}|{'fresh' if st.get('fresh') else 'reused'}"
            for hname, h in (("same", t), ("fresh", datashard.load_table(w.table_path))):
                try:
                    got = sorted((ir.row_key(r) for r in h.scan()), key=repr)
                except (core.SimDead, core.SimKilled):
                    raise
                except Exception as e:
                    V.append({"clause": "E.accepted_breaks_scan", "sig": f"E.accepted_breaks_scan|{sig}",
                              "msg": f"[{backend}] {desc}: accepted, then scan() through the {hname} handle raises "
                                     f"{type(e).__name__}: {str(e)[:120]}"})
                    return
                if got != sorted(model_rows, key=repr):
                    V.append({"clause": "E.rows_differ", "sig": f"E.rows_differ|{sig}",
                              "msg": f"[{backend}] {desc}: accepted, but scan() through the {hname} handle returns {got[-2:]} ... "
                                     f"instead of the rows supplied {sorted(model_rows, key=repr)[-2:]}"})
                    return
    sim.spawn(sim.proc("p0"), "h", body)
    ph.run()
    if sim.outcome != "ok":
        V = []
    res = common.assemble(ph, V[:1], flags["acc"] > 1, backend + "/schemaless", {"steps": trace})
    import hashlib
    res["sched_sig"] = hashlib.sha1(repr((backend, trace)).encode()).hexdigest()
    w.cleanup()
    return res


def execute(plan: dict, scratch: str, replay: Optional[dict] = None) -> dict:
    if plan.get("mode") == "schemaless":
        return execute_schemaless(plan, scratch)
    if plan.get("mode") == "types":
        return execute_types(plan, scratch)
    from datashard import DataFile, FileFormat, Schema
    import pyarrow as pa
    import pyarrow.parquet as pq
    common.fresh_scratch(scratch)
    seed = plan.get("run_seed", 0)
    backend = plan["backend"]
    ph = Phase(plan, scratch, backend, seed, core.Policy(), max_steps=60000)
    w, sim = ph.world, ph.sim
    V: List[dict] = []
    model_rows: List[tuple] = []
    trace = []
    flags = {"acc": 0, "rej": 0, "nonid": 0}

    def bad(clause, msg, sig):
        V.append({"clause": clause, "msg": f"[{backend}] {msg}", "sig": f"{clause}|{sig}"})

    arrow_base = pa.schema([pa.field("tag", pa.string(), nullable=False), pa.field("v", pa.int64()),
                            pa.field("x", pa.float64()), pa.field("i", pa.int32()), pa.field("f", pa.float32())])

    def body():
        import datashard
        t = datashard.create_table(w.table_path, schema=Schema(schema_id=1, fields=copy.deepcopy(FIELDS)))
        for si, st in enumerate(plan["steps"]):
            if st.get("fresh"):
                t = datashard.load_table(w.table_path)
                sim.probe("fresh_handle_append")
            else:
                sim.probe("reused_handle_append")
            before = w.state(deep=True, rows=False)
            bkey = common.state_key(before)
            breach = before.reachable()
            if st["kind"] == "records":
                rows = [mk_row(si, k, c) for k, c in enumerate(st["rows"])]
                vf = variant_fields(st["variant"])
                sch = None
                if vf is not None:
                    try:
                        sch = Schema(schema_id=7 if st["variant"] == "other_schema_id" else 1, fields=vf)
                    except Exception:
                        sch = None
                ok_expected = all(representable(r) for r in rows)
                desc = f"step {si} records variant={st['variant']} fresh={st.get('fresh')} rows={[POOL[c][0] for c in st['rows']]}"
                try:
                    t.append_records([dict(r) for r in rows], schema=sch)
                    accepted = True
                except (core.SimDead, core.SimKilled):
                    raise
                except Exception as e:
                    accepted = False
                    err = f"{type(e).__name__}: {str(e)[:100]}"
                norm = [normalise(r) for r in rows] if ok_expected else None
                vclass = st["variant"]
                rclasses = "+".join(sorted({POOL[c][0] for c in st["rows"] if not representable(mk_row(0, 0, c))}))
            else:
                n = st["n"]
                data = [{"tag": f"s{si}.f{k}", "v": k, "x": 0.5, "i": 1, "f": 0.25} for k in range(n)]
                var = st["variant"]
                if var == "match":
                    tb = pa.Table.from_pylist(data, schema=arrow_base)
                elif var == "reordered":
                    tb = pa.Table.from_pylist(data, schema=pa.schema([arrow_base.field(i) for i in (0, 2, 1, 3, 4)]))
                elif var == "type":
                    tb = pa.Table.from_pylist([dict(d, v=float(d["v"])) for d in data],
                                              schema=pa.schema([arrow_base.field(0), pa.field("v", pa.float64())] +
                                                               [arrow_base.field(i) for i in (2, 3, 4)]))
                elif var == "extra":
                    tb = pa.Table.from_pylist([dict(d, extra="e") for d in data],
                                              schema=pa.schema(list(arrow_base) + [pa.field("extra", pa.string())]))
                elif var == "nullable":
                    tb = pa.Table.from_pylist(data, schema=pa.schema([pa.field("tag", pa.string(), nullable=True)] +
                                                                     [arrow_base.field(i) for i in (1, 2, 3, 4)]))
                elif var == "missing_col":
                    tb = pa.Table.from_pylist([{k: d[k] for k in ("tag", "v", "x", "i")} for d in data],
                                              schema=pa.schema([arrow_base.field(i) for i in (0, 1, 2, 3)]))
                else:
                    tb = None
                name = f"pre_{si}.parquet"
                if tb is not None:
                    buf = io.BytesIO()
                    pq.write_table(tb, buf)
                    content = buf.getvalue()
                else:
                    content = b"PAR1 this is not parquet" * 4
                t.storage.write_file(f"data/{name}", content)
                df = DataFile(file_path=f"/data/{name}", file_format=FileFormat.PARQUET, partition_values={},
                              record_count=n, file_size_in_bytes=len(content))
                desc = f"step {si} append_files variant={var} fresh={st.get('fresh')}"
                ok_expected = (var == "match")
                try:
                    with t.new_transaction() as tx:
                        tx.append_files([df])
                    accepted = True
                except (core.SimDead, core.SimKilled):
                    raise
                except Exception as e:
                    accepted = False
                    err = f"{type(e).__name__}: {str(e)[:100]}"
                norm = [ir.row_key(d) for d in data] if var == "match" else None
                vclass = "file:" + var
                rclasses = ""
            trace.append((desc, "accepted" if accepted else "rejected"))
            if not accepted:
                flags["rej"] += 1
                sim.probe("rejected" if st["kind"] == "records" else "prebuilt_file_rejected")
                after = w.state(deep=True, rows=False)
                if common.state_key(after) != bkey:
                    bad("E.rejected_left_trace", f"{desc}: rejected ({err}) but the table state changed", f"{vclass}")
                elif after.reachable() != breach:
                    bad("E.rejected_left_trace", f"{desc}: rejected but the reachable file set changed", f"{vclass}")
                if ok_expected and st["kind"] == "records" and st["variant"] in ("omitted", "identical", "reordered", "renumbered",
                                                                               "other_schema_id"):
                    pass  # rejecting a representable batch is allowed by the statement ("either raises ... or succeeds")
                continue
            flags["acc"] += 1
            sim.probe("accepted" if st["kind"] == "records" else "prebuilt_file_accepted")
            if st["kind"] == "records" and st["variant"] not in ("omitted", "identical"):
                flags["nonid"] += 1
                sim.probe("nonidentical_schema_accepted")
            if not ok_expected:
                what = rclasses or vclass
                # accepted although not representable / not a matching file: the value was silently altered or
                # the table will break; decide by reading back
                bad_reason = f"{desc}: accepted"
            if norm is not None:
                model_rows.extend(norm)
            # every later scan must work: check now, through a fresh and the same handle
            for hname, h in (("same", t), ("fresh", datashard.load_table(w.table_path))):
                try:
                    got = sorted((ir.row_key(r) for r in h.scan()), key=repr)
                except (core.SimDead, core.SimKilled):
                    raise
                except Exception as e:
                    bad("E.accepted_breaks_scan", f"{desc}: accepted, then scan() through the {hname} handle raises "
                                                  f"{type(e).__name__}: {str(e)[:120]}", f"{vclass}|{rclasses}")
                    return
                if norm is None:
                    # accepted something unrepresentable: it must at least not have been silently altered -> it was
                    if st["kind"] == "files":
                        bad("E.divergent_file_accepted", f"{desc}: a pre-built file whose footer schema differs from the table's "
                                                         f"persisted schema was accepted", f"{vclass}")
                    else:
                        bad("E.unrepresentable_accepted", f"{desc}: a value the declared type cannot represent was accepted and "
                                                          f"stored altered", f"{vclass}|{rclasses}")
                    return
                if got != sorted(model_rows, key=repr):
                    bad("E.rows_differ", f"{desc}: scan() through the {hname} handle returns {len(got)} rows that differ from the "
                                         f"{len(model_rows)} accepted rows", f"{vclass}|{rclasses}")
                    return
            # every string just accepted must stay findable by equality / range / membership (file pruning by column
            # statistics must not hide it)
            tags = [r["tag"] for r in rows if isinstance(r.get("tag"), str)][:3] if st["kind"] == "records" else []
            tag_probes = tuple((("tag", o, (tg if o != "in" else [tg])) for tg in tags for o in ("==", ">=", "in", ">"))) \
                if any(len(tg) > 12 for tg in tags) else ()
            for col, op, val in (("v", ">=", 0), ("tag", "==", rows[0]["tag"] if st["kind"] == "records" and isinstance(rows[0].get("tag"), str) else "zz"),
                                 ("x", "is_not_null", True), ("i", ">=", -5), ("f", "is_not_null", True),
                                 ("x", "!=", 1.5), ("x", "!=", 3), ("f", "in", [0.1, 0.5]), ("f", ">", 0.1), ("f", "<", 0.5000001)) + tag_probes:
                flt = {col: val} if op == "==" else {col: (op, val)}
                try:
                    got = sorted((ir.row_key(r) for r in t.scan(filter=flt)), key=repr)
                except (core.SimDead, core.SimKilled):
                    raise
                except Exception as e:
                    bad("E.accepted_breaks_filtered_scan", f"{desc}: filtered scan {flt} raises {type(e).__name__}: {str(e)[:120]}",
                        f"{vclass}|{rclasses}")
                    return
                want = sorted(py_filter(model_rows, col, op, val), key=repr)
                if got != want:
                    bad("E.misfilter", f"{desc}: filtered scan {flt} returns {len(got)} rows, expected {len(want)}",
                        f"{vclass}|{rclasses}|{col}")
                    return
    sim.spawn(sim.proc("p0"), "h", body)
    ph.run()
    if sim.outcome != "ok":
        V = []
    nontrivial = (flags["acc"] > 0 and flags["rej"] > 0) or flags["nonid"] > 0
    res = common.assemble(ph, V[:1], nontrivial, backend, {"steps": trace})
    import hashlib
    res["sched_sig"] = hashlib.sha1(repr((backend, trace)).encode()).hexdigest()
    w.cleanup()
    return res
