"""C01 — concurrent commits are serializable (refinement at every pointer flip)."""
from __future__ import annotations

import random
from typing import List, Optional

from dsim import core, ir
from . import common
from .common import Phase, RefineChecker

PROP = "C01"
LEVEL = "exploration"
BUDGET = {"quick": 60, "thorough": 900}
MIN_BUDGET = {"quick": 25, "thorough": 120}
RULE = ("seeded plans: 2-4 committers x 1-3 commits over {append, two-append txn, delete file (+append), expire "
        "(+append), delete_snapshot, property set} on a table pre-seeded with 0-3 snapshots; topology "
        "separate/shared/mixed handles; backend local/CAS-S3; clock fine/coarse/frozen; scheduler "
        "random(p)/PCT(d)/default at seam granularity, plus a targeted hold parking one committer just before the commit "
        "lock until another has committed (guaranteed stale base), in some runs one committing process killed at a seeded storage call, and - for threads sharing a handle - line-level "
        "pre-emption (sys.settrace: any line of datashard code is a switch point with probability 0.2-5 %). Distinct = SHA-1 of the (actor, op, path-class, outcome) "
        "sequence of write/lock/pointer events; non-trivial = the run had >= 1 OCC retry, CAS conflict, lock "
        "contention or equal-timestamp commit AND >= 2 pointer flips by different actors.")
ASSUMPTIONS = common.BASE_ASSUMPTIONS + [
    "refinement oracle: metadata version after each flip == model.apply(version before the flip, committing op)",
]
COMPONENTS = common.COMPONENTS
EXPECT_PROBES = ["commit_retry", "cas_conflict", "flock_contended", "rlock_contended", "equal_ms_commit", "flip",
                 "line_preemption", "hold_engaged", "committer_died"]
CLAUSES = None  # every refinement clause is part of "the final table equals applying exactly the acked commits"


def gen_op(rng: random.Random, tag: str) -> dict:
    r = rng.random()
    if r < 0.40:
        return {"kind": "append", "tag": tag, "n": rng.randint(1, 3),
                "style": rng.choice(["records", "with", "explicit"]), "pass_schema": rng.random() < 0.3}
    if r < 0.50:
        return {"kind": "multi", "tag": tag, "n": rng.randint(1, 2), "style": rng.choice(["with", "explicit"])}
    if r < 0.65:
        return {"kind": "delete_file", "tag": tag, "k": rng.randint(0, 5), "slash": rng.random() < 0.7,
                "with_append": rng.random() < 0.3}
    if r < 0.78:
        return {"kind": "expire", "tag": tag, "k": rng.randint(0, 5), "delta": rng.choice([0, 0, 1]),
                "with_append": rng.random() < 0.3}
    if r < 0.92:
        return {"kind": "delete_snapshot", "k": rng.randint(0, 5)}
    return {"kind": "set_prop", "key": f"k{rng.randint(0, 2)}", "value": tag}


def gen(rng: random.Random, tier: str, idx: int) -> dict:
    backend = "local" if rng.random() < 0.6 else "s3"
    topo = rng.choice(["separate", "separate", "shared", "mixed"])
    clock = rng.choice(["fine", "fine", "coarse", "frozen"])
    nact = rng.randint(2, 4)
    max_ops = 3 if tier == "quick" else 5
    meta_heavy = rng.random() < 0.3
    actors = []
    for i in range(nact):
        ops = []
        for j in range(rng.randint(1, max_ops)):
            tag = f"a{i}.{j}"
            if meta_heavy:
                op = rng.choice([{"kind": "delete_snapshot", "k": rng.randint(0, 5)},
                                 {"kind": "expire", "tag": tag, "k": rng.randint(0, 5), "delta": rng.choice([0, 1])},
                                 {"kind": "set_prop", "key": f"k{rng.randint(0, 1)}", "value": tag}])
            else:
                op = gen_op(rng, tag)
            ops.append(op)
        if topo == "separate":
            proc = f"p{i}"
        elif topo == "shared":
            proc = "p0"
        else:
            proc = f"p{i // 2}"
        actors.append({"name": f"a{i}", "proc": proc, "ops": ops})
    setup = [{"kind": "append", "tag": f"s{k}", "n": rng.randint(1, 2)} for k in range(rng.randint(0, 3))]
    delete_race = (not meta_heavy) and rng.random() < 0.12
    if delete_race:
        # several files in ONE manifest (multi-append transaction), every committer deletes a different one of them
        # (some name two): each loser's retry has to re-apply its delete to the manifest the winner has just rewritten
        setup = [{"kind": "multi", "tag": "sm", "n": 1, "parts": rng.randint(3, 5)}] + setup[:1]
        for i, a in enumerate(actors):
            a["ops"] = [dict({"kind": "delete_file", "tag": f"a{i}.d", "k": i, "slash": rng.random() < 0.7,
                              "with_append": rng.random() < 0.3}, **({"k2": i + len(actors)} if rng.random() < 0.3 else {}))] + a["ops"][:1]
    if meta_heavy and len(setup) < 2:
        setup += [{"kind": "append", "tag": f"sx{k}", "n": 1} for k in range(2)]
    plan = {"backend": backend, "topology": topo, "clock": clock,
            "quantum": rng.choice([0.05, 1.0, 10.0]), "setup": setup, "actors": actors,
            "policy": common.gen_policy(rng), "faults": []}
    if rng.random() < 0.15:
        plan["retention"] = rng.randint(1, 3)
    if topo == "separate" and rng.random() < 0.12:
        # one committing PROCESS dies at a seeded storage call: its un-acknowledged commit may or may not be reflected
        # (C03), everything the others acknowledged must still be (local: the kernel drops its flock; S3: the others
        # may time out on the orphaned lock object, which is a raise, not a lost update)
        plan["faults"].append({"kind": "crash", "proc": f"p{rng.randrange(nact)}", "pstep": rng.randint(5, 160)})
    if topo in ("shared", "mixed") and rng.random() < 0.35:
        # line-level pre-emption: threads sharing a handle may be switched between ANY two lines of datashard code,
        # not only at storage calls (in-memory state races)
        plan["preempt_p"] = rng.choice([0.002, 0.01, 0.05])
    if topo == "separate" and (rng.random() < 0.3 or delete_race):
        # park one committer right before it takes the commit lock (its base is already read, its manifests written)
        # until another committer has finished an operation: a guaranteed stale base at validation time
        site = {"op": "flock", "cls": "LOCK"} if backend == "local" else {"op": "put", "cls": "LOCK"}
        x, y = rng.sample(range(nact), 2)
        plan["policy"].setdefault("holds", []).append(dict(site, actor=f"a{x}", nth=rng.choice([1, 1, 2]),
                                                           until=f"a{y}", until_ops=1))
    return plan


def shrink(plan: dict):
    yield from common.generic_shrink(plan)
    if plan.get("clock") == "coarse":
        pass


def execute(plan: dict, scratch: str, replay: Optional[dict] = None) -> dict:
    common.fresh_scratch(scratch)
    seed = plan.get("run_seed", 0)
    backend = plan["backend"]
    setup_ops = list(plan.get("setup", []))
    if plan.get("retention"):
        setup_ops.insert(0, {"kind": "set_prop", "key": "datashard.snapshot.retention-count",
                             "value": str(plan["retention"])})
    ph0 = common.run_setup(scratch, backend, seed, setup_ops)
    st0 = ph0.world.state()
    order0 = [sid for (_t, sid) in st0.snapshot_log] if st0 else []
    ph = Phase(plan, scratch, backend, seed, common.make_policy(plan.get("policy", {}), seed ^ 0x5EED, replay),
               faults=plan.get("faults"), start=ph0.sim.now + 1.0, store=ph0.world.store,
               clock_mode=plan.get("clock", "fine"), clock_quantum=plan.get("quantum", 1.0))
    w = ph.world
    if plan.get("preempt_p"):
        ph.sim.extra["preempt_p"] = plan["preempt_p"]
        ph.sim.max_steps = 200000
    chk = RefineChecker(w, commit_order=order0, clauses=CLAUSES)
    byproc = {}
    for a in plan["actors"]:
        byproc.setdefault(a["proc"], []).append(a)
    for proc, acts in byproc.items():
        if len(acts) == 1:
            ph.actor(proc, acts[0]["name"], acts[0]["ops"])
        else:
            ph.shared(proc, [(a["name"], a["ops"]) for a in acts])
    ph.run()
    violations: List[dict] = []
    if ph.sim.outcome == "ok":
        violations += chk.problems
        violations += common.final_state_checks(w, chk)
        try:
            st = w.state()
        except ir.IRError as e:
            st = None
            violations.append({"clause": "A.final_unreadable", "msg": f"final table unreadable: {e}"})
        violations += common.tag_conservation(w, st)
        violations += common.library_agrees(w, st)
        # equal-timestamp commits (coarse clocks) probe
        if st is not None:
            ts = [s.ts for s in st.snaps]
            if len(ts) != len(set(ts)):
                ph.sim.probe("equal_ms_commit")
    elif ph.sim.outcome == "deadlock":
        violations.append({"clause": "L.deadlock", "msg": "all committers blocked forever"})
    if ph.sim.fired.get("crash"):
        ph.sim.probe("committer_died")
    flippers = {f["actor"] for f in w.flips}
    p = ph.sim.probes
    nontrivial = len(flippers) >= 2 and (p["commit_retry"] + p["cas_conflict"] + p["flock_contended"]
                                         + p["rlock_contended"] + p["equal_ms_commit"]) > 0
    for v in violations:
        kinds = sorted({h["op"]["kind"] for h in w.history
                        if h.get("flips") and v.get("flip") in h.get("flips", [])})
        v["sig"] = f"{v['clause']}|{'+'.join(kinds) if kinds else '-'}|clock={plan.get('clock')}"
    cfg = f"{backend}/{plan['topology']}/{plan.get('clock')}"
    res = common.assemble(ph, violations, nontrivial, cfg, common.trace_sample(ph, plan), chk.state_sigs)
    w.cleanup()
    return res
