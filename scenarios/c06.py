"""C06 — garbage collection is safe against concurrently committing transactions."""
from __future__ import annotations

import random
from typing import List, Optional

from dsim import core, ir, world
from . import common
from .common import Phase, RefineChecker

PROP = "C06"
LEVEL = "exploration"
BUDGET = {"quick": 60, "thorough": 900}
MIN_BUDGET = {"quick": 25, "thorough": 120}
RULE = ("one collector process x 1-2 writer processes; writers run long transactions (append_data, or append_files of a pre-built file 0 / 2 h old; hold 0-3 h of "
        "virtual time, then commit; two writers conflict and retry; some roll back; some delete a file so manifests "
        "are rewritten); the collector wakes within a few (virtual) milliseconds of a writer's commit and collects with "
        "grace in {10 s, 1 h}; scheduler random/PCT plus targeted holds that park the collector at each phase "
        "boundary (after its metadata read, after a manifest-list / manifest read, after the marker listing, after "
        "the data listing, before a delete) until a writer has finished an operation. The oracle is applied only "
        "when grace > virtual duration of the collection. Oracle: no file removed by the collector is referenced "
        "by the final metadata, every file of every snapshot in the final metadata exists and is readable, and no "
        "transaction younger than the 24 h abandonment window fails because its files vanished. Distinct = SHA-1 "
        "of write/lock/pointer/delete events; non-trivial = a pointer flip happened between the collector's first "
        "and last storage call. Early-collection plans: w0 is parked between its marker write and its data-file write until a first "
        "collection has run, stays open past the grace period, and a second collection arrives just before / inside its commit.")
ASSUMPTIONS = common.BASE_ASSUMPTIONS + [
    "a pre-built file is in scope from the moment append_files() has returned (it is then 'registered by a live transaction'); "
    "before that it is an ordinary unreferenced file",
    "writers never expire snapshots here, so reachability only grows and the final metadata is the reference",
]
COMPONENTS = common.COMPONENTS
EXPECT_PROBES = ["gc_overlapped_commit", "hold_engaged", "gc_deleted_any", "commit_retry", "gc_ran", "old_file_committed"]

HOLDS = [("open", "META"), ("open", "MLIST"), ("open", "MANIFEST"), ("list", "MARKER"), ("list", "DATA"),
         ("remove", "DATA"), ("stat", "DATA"), ("list", "MANIFEST")]
HOLDS_S3 = [("get", "META"), ("get", "MLIST"), ("get", "MANIFEST"), ("list", "MARKER"), ("list", "DATA"),
            ("delete", "DATA"), ("head", "DATA"), ("list", "MANIFEST")]


def gen(rng: random.Random, tier: str, idx: int) -> dict:
    backend = "local" if rng.random() < 0.65 else "s3"
    grace_ms = rng.choice([10_000, 3_600_000])
    nw = rng.randint(1, 2)
    gap = rng.choice([0.0, 30.0, 4000.0, 10800.0])
    actors = []
    for i in range(nw):
        ops = []
        for j in range(rng.randint(1, 2)):
            r = rng.random()
            g = gap if j == 0 else rng.choice([0.0, 20.0])
            if r < 0.2:
                # a pre-built file handed over with append_files: already older than the grace period (or fresh) when it
                # is registered, then the transaction stays open for g
                part = rng.random() < 0.5      # partitioned layout: every writer's file has the same basename
                ops.append({"kind": "files_append", "tag": f"w{i}.{j}", "n": 1, "age": rng.choice([0.0, 7200.0, 7200.0]),
                            **({"dir": f"p={i + 1}{'abc'[j]}", "name": rng.choice(["pre_part0", "pre_part0", ".tmp.pre_export"])} if part else {}),   # one directory per file: a path is never re-used
                            "gap": g, "rollback": rng.random() < 0.1})
            elif r < 0.7:
                ops.append({"kind": "long_append", "tag": f"w{i}.{j}", "n": 1, "gap": g, "rollback": rng.random() < 0.15})
            elif r < 0.85:
                ops.append({"kind": "multi", "tag": f"w{i}.{j}", "n": 1, "style": "explicit", "gap": g})
            else:
                ops.append({"kind": "delete_file", "tag": f"w{i}.{j}", "k": rng.randint(0, 3), "with_append": True})
        actors.append({"name": f"w{i}", "proc": f"pw{i}", "ops": ops})
    # the collector wakes around the writers' commit: before it, inside it, or inside a retry back-off (20-80 ms)
    if backend == "local":
        delta = rng.choice([rng.uniform(-0.004, 0.004), rng.uniform(0.0, 0.09)])
    else:
        delta = rng.choice([rng.uniform(-0.6, 0.6), rng.uniform(0.0, 2.0)])
    gops = [{"kind": "sleep", "dt": max(0.0, gap + delta)}, {"kind": "gc", "grace_ms": grace_ms}]
    if rng.random() < 0.3:
        gops += [{"kind": "sleep", "dt": rng.choice([0.001, 15.0])}, {"kind": "gc", "grace_ms": grace_ms}]
    actors.append({"name": "gc", "proc": "pgc", "ops": gops})
    pol = common.gen_policy(rng)
    if rng.random() < 0.55:
        op, cls = rng.choice(HOLDS if backend == "local" else HOLDS_S3)
        pol["hold"] = {"actor": "gc", "op": op, "cls": cls, "nth": rng.choice([1, 1, 2, 3]),
                       "until": f"w{rng.randrange(nw)}", "until_ops": 1}
    if nw == 2 and rng.random() < 0.4:
        # force an OCC conflict: park w0 right before it takes the commit lock until w1 has committed, so w0's
        # first attempt loses and the collector meets a transaction that is between two attempts
        lock_site = {"op": "flock", "cls": "LOCK"} if backend == "local" else {"op": "put", "cls": "LOCK"}
        pol.setdefault("holds", []).append(dict(lock_site, actor="w0", nth=1, until="w1", until_ops=1))
        if rng.random() < 0.5:
            pol["holds"].append(dict(lock_site, actor="w0", nth=2, until="gc", until_ops=rng.choice([1, 2])))
    if rng.random() < 0.15 and actors[0]["ops"][0]["kind"] in ("long_append", "multi"):
        # an EARLY collection: w0 is parked between registering its in-flight marker and writing the data file until a
        # first collection has run (it meets a marker whose file does not exist yet); the transaction then stays open
        # past the grace period and a second collection arrives shortly before / inside its commit
        early_gap = rng.choice([4000.0, 10800.0])
        actors[0]["ops"][0]["gap"] = early_gap
        actors[-1]["ops"] = [{"kind": "gc", "grace_ms": grace_ms},
                             {"kind": "sleep", "dt": max(0.0, early_gap + rng.choice([-5.0, -0.5, delta]))},
                             {"kind": "gc", "grace_ms": grace_ms}]
        site = {"op": "create", "cls": "DATA_TMP"} if backend == "local" else {"op": "put", "cls": "DATA"}
        pol.setdefault("holds", []).append(dict(site, actor="w0", nth=1, until="gc", until_ops=1))
        pol["early_gc"] = True
    setup = [{"kind": "append", "tag": f"s{k}", "n": 1} for k in range(rng.randint(0, 2))]
    if rng.random() < 0.4:
        setup += [{"kind": "delete_file", "tag": "sd", "k": 0, "with_append": True}, {"kind": "sleep", "dt": 7200.0}]
    return {"backend": backend, "setup": setup, "actors": actors, "policy": pol, "grace_ms": grace_ms, "faults": []}


def prebuilt_cause(sim, path: str) -> str:
    """For a pre-built file (append_files) that the collector removed: was its in-flight marker written before or after the
    collector's marker listing of the run that removed it?  ('before' means the protection was in force and ignored.)"""
    # (when the file was registered is taken from the harness's own record of the append_files() call - marker NAMES are
    #  the library's business and carry no meaning here)
    reg = [h["resolved"]["registered_g"] for h in sim.extra.get("world_history", [])
           if h.get("resolved", {}).get("staged") == path.lstrip("/") and "registered_g" in h.get("resolved", {})]
    dele = [g for (g, _vt, a, op, t, o) in sim.log
            if a.startswith("gc") and op in ("remove", "delete") and o == "ok" and t.lstrip("/") == path.lstrip("/")]
    if not dele:
        return "not_deleted_by_collector"
    if not reg:
        return "never_registered"
    lists = [g for (g, _vt, a, op, t, o) in sim.log
             if a.startswith("gc") and g < dele[0] and t.rstrip("/") == "metadata/inflight"]
    if not lists or reg[0] < max(lists):
        return "marker_before_marker_read"
    return "marker_after_marker_read"


def shrink(plan: dict):
    import copy
    for p in common.generic_shrink(plan):
        if any(a["name"] == "gc" for a in p["actors"]) and any(a["name"] != "gc" for a in p["actors"]):
            yield p
    if plan.get("policy", {}).get("hold"):
        p = copy.deepcopy(plan)
        p["policy"].pop("hold")
        yield p


def execute(plan: dict, scratch: str, replay: Optional[dict] = None) -> dict:
    common.fresh_scratch(scratch)
    seed = plan.get("run_seed", 0)
    backend = plan["backend"]
    ph0 = common.run_setup(scratch, backend, seed, list(plan.get("setup", [])))
    ph = Phase(plan, scratch, backend, seed, common.make_policy(plan.get("policy", {}), seed ^ 0x5EED, replay),
               faults=plan.get("faults"), start=ph0.sim.now + 1.0, store=ph0.world.store, max_steps=40000)
    w, sim = ph.world, ph.sim
    for a in plan["actors"]:
        ph.actor(a["proc"], a["name"], a["ops"])
    ph.run()
    V: List[dict] = []
    overlapped = False
    cfg = f"{backend}/grace={plan['grace_ms']}"
    if sim.outcome == "ok":
        gcs = [h for h in w.history if h["op"]["kind"] == "gc"]
        in_scope = True
        all_deleted = set()
        for rec in gcs:
            res = rec.get("resolved", {})
            if (res.get("gc_end_now", 0) - res.get("gc_now", 0)) * 1000.0 >= plan["grace_ms"]:
                # precondition of the property not met (the hold kept the collector parked across a
                # writer's long sleep): nothing in this run is judged
                in_scope = False
                sim.probe("gc_exceeded_grace")
        for rec in (gcs if in_scope else []):
            res = rec.get("resolved", {})
            sim.probe("gc_ran")
            lo, hi = res.get("gc_start_step", 0), res.get("gc_end_step", 1 << 60)
            d = set(common.gc_deleted(sim, rec["actor"], lo, hi))
            if d:
                sim.probe("gc_deleted_any")
            all_deleted |= d
            if any(lo < f["gstep"] <= hi for f in w.flips):
                overlapped = True
                sim.probe("gc_overlapped_commit")
            if rec["outcome"] == "raise":
                # a collection that gives up next to a committing writer deletes nothing: safe under this property (that
                # old orphans ARE removed is C05's statement, for collections that run alone)
                sim.probe("gc_raised_next_to_writers")
        if in_scope:
            try:
                st = w.state(deep=True, rows=True)
            except ir.IRError as e:
                st = None
                V.append({"clause": "G.final_unreadable",
                          "msg": f"[{cfg}] a file of a snapshot in the final metadata is missing/unreadable: {e}",
                          "sig": (f"G.final_unreadable|{backend}|{e.kind}" if "pre_" not in e.path.rsplit("/", 1)[-1] else
                                  "G.final_unreadable|prebuilt|" + prebuilt_cause(sim, e.path))})
                try:
                    st = w.state(deep=True, rows=False)
                except ir.IRError:
                    st = None
            if st is not None:
                reach = st.reachable()
                live = reach["data"] | reach["manifests"] | reach["lists"]
                hit = all_deleted & live
                if hit:
                    V.append({"clause": "G.deleted_committed",
                              "msg": f"[{cfg}] the collector deleted {sorted(hit)[:2]} which the final metadata references",
                              "sig": (f"G.deleted_committed|{backend}|{world.seams.classify_rel(sorted(hit)[0])}"
                                      if "pre_" not in sorted(hit)[0].rsplit("/", 1)[-1] else
                                      "G.deleted_committed|prebuilt|" + prebuilt_cause(sim, sorted(hit)[0]))})
                for s in st.snaps:
                    for p in s.files:
                        try:
                            if w.view().mtime(p) < sim.true_time() - plan["grace_ms"] / 1000.0 - 1:
                                sim.probe("old_file_committed")
                                break
                        except Exception:
                            pass
            for rec in w.history:
                if rec["op"]["kind"] == "files_append" and not rec.get("resolved", {}).get("registered"):
                    continue   # not yet handed to a transaction: an old unreferenced file is a legitimate orphan
                if rec["actor"].startswith("w") and rec["outcome"] == "raise" and rec.get("exc") in (
                        "FileNotFoundError",) and rec["op"].get("gap", 0) < 86000:
                    V.append({"clause": "G.inflight_deleted",
                              "msg": f"[{cfg}] {rec['actor']} {rec['op']['kind']} failed because its uncommitted file vanished: "
                                     f"{(rec.get('msg') or '')[:160]}",
                              "sig": (f"G.inflight_deleted|{backend}" if rec["op"]["kind"] != "files_append" else
                                      "G.inflight_deleted|prebuilt|" + prebuilt_cause(sim, rec["resolved"]["staged"]))})
    elif sim.outcome == "deadlock":
        V.append({"clause": "L.deadlock", "msg": "actors blocked forever"})
    res = common.assemble(ph, V, overlapped, cfg, common.trace_sample(ph, plan))
    w.cleanup()
    return res
