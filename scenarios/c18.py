"""C18 — creating a table is idempotent and race-safe."""
from __future__ import annotations

import os
import random
from typing import List, Optional

from dsim import core, ir, world
from . import common
from .common import Phase, RefineChecker

PROP = "C18"
LEVEL = "exploration"
BUDGET = {"quick": 60, "thorough": 900}
MIN_BUDGET = {"quick": 25, "thorough": 120}
RULE = ("2-3 processes concurrently calling create_table(schema A / schema B / no schema), Table(...), load_table and a "
        "first append_records (with or without a schema argument A / B; through a handle that initialises an absent table "
        "or through one opened with create_if_not_exists=False), each followed by an observation of the table "
        "identity through its own handle; initial state in {absent, healthy with data, pointer lost, v0 metadata "
        "written but pointer missing, directories only}; local and CAS-S3; scheduler random/PCT at seam granularity. "
        "Oracle: every version ever named by the pointer carries one table uuid (the pre-existing one if a table "
        "existed); persisted schema and committed rows of an existing table never change except by acknowledged "
        "appends (refinement at every flip); every caller ends on that uuid; create/open never raise on an existing "
        "or racing table; schema-less appends succeed iff a schema is persisted and never write column-less rows; a table that "
        "ends with a persisted schema is readable by the library's own scan (no file written under another schema got in). "
        "Distinct = SHA-1 of write/lock/pointer events; non-trivial = two callers overlapped in time and at least "
        "one initialisation or commit happened.")
ASSUMPTIONS = common.BASE_ASSUMPTIONS + [
    "pointer-lost initial states are produced by deleting the pointer file of a healthy table (harness level)",
]
COMPONENTS = common.COMPONENTS
EXPECT_PROBES = ["init_race", "cas_conflict", "flock_contended", "recovered_without_pointer"]


def gen(rng: random.Random, tier: str, idx: int) -> dict:
    backend = "local" if rng.random() < 0.6 else "s3"
    init = rng.choice(["absent", "absent", "healthy", "pointer_lost", "v0_only", "dirs_only"])
    n = rng.randint(2, 3)
    actors = []
    for i in range(n):
        r = rng.random()
        if r < 0.5:
            first = {"kind": "create", "schema": rng.choice(["A", "A", "B", None])}
        elif r < 0.65:
            first = {"kind": "ctor", "schema": rng.choice(["A", None])}
        elif r < 0.8:
            first = {"kind": "load"}
        else:
            first = {"kind": "first_append", "tag": f"f{i}", "schema": rng.choice([None, "A", "B", "Ar"]),
                     "noinit": rng.random() < 0.4}
            if rng.random() < 0.25:
                # the first append hands over a pre-built parquet file (written with schema A or B)
                first.update({"prebuilt": True, "wide": rng.random() < 0.6, "schema": None})
        ops = [first]
        if rng.random() < 0.5:
            ops.append({"kind": "first_append", "tag": f"g{i}", "schema": rng.choice([None, None, "A"])})
        elif rng.random() < 0.15:
            # a schema-less append of records without any field: must raise (no schema available / required field
            # missing), never commit a column-less file
            ops.append({"kind": "first_append", "tag": f"e{i}", "schema": None, "fieldless": True})
        ops.append({"kind": "observe"})
        actors.append({"name": f"c{i}", "proc": f"p{i}", "ops": ops})
    return {"backend": backend, "init": init, "actors": actors, "policy": common.gen_policy(rng, 600), "faults": []}


def shrink(plan: dict):
    yield from common.generic_shrink(plan)


def _prepare(plan, scratch, seed):
    backend, init = plan["backend"], plan["init"]
    if init in ("absent",):
        return None, 0.0, None
    if init == "dirs_only":
        if backend == "local":
            for d in ("metadata/manifests", "data", ".locks"):
                os.makedirs(os.path.join(scratch, "tbl", d), exist_ok=True)
        return None, 0.0, None
    ops = [{"kind": "append", "tag": "s0", "n": 2}, {"kind": "append", "tag": "s1", "n": 1}] if init != "v0_only" else []
    ph0 = common.run_setup(scratch, backend, seed, ops)
    w0 = ph0.world
    st = w0.state()
    if init in ("pointer_lost", "v0_only"):
        if backend == "local":
            os.remove(os.path.join(w0.root, ir.HINT))
        else:
            w0.store.bucket(w0.bucket).pop(f"{w0.prefix}/{ir.HINT}", None)
    return w0.store, ph0.sim.now, st


def execute(plan: dict, scratch: str, replay: Optional[dict] = None) -> dict:
    common.fresh_scratch(scratch)
    seed = plan.get("run_seed", 0)
    backend = plan["backend"]
    store, now, st0 = _prepare(plan, scratch, seed)
    ph = Phase(plan, scratch, backend, seed, common.make_policy(plan.get("policy", {}), seed ^ 0x5EED, replay),
               faults=plan.get("faults"), start=now + 1.0, store=store)
    w, sim = ph.world, ph.sim
    order0 = [sid for (_t, sid) in st0.snapshot_log] if st0 else []
    chk = RefineChecker(w, commit_order=order0)
    chk.fallback = st0 if plan["init"] in ("pointer_lost", "v0_only") else None
    for a in plan["actors"]:
        c = world.Ctx(w, a["name"], lambda: None)
        sim.spawn(sim.proc(a["proc"]), a["name"], lambda c=c, ops=a["ops"]: world.run_ops(c, ops))
    ph.run()
    V: List[dict] = []
    cfg = f"{backend}/{plan['init']}"
    if sim.outcome == "ok":
        V += [p for p in chk.problems]
        uu = set()
        for fl in w.flips:
            try:
                s = chk.state_for(fl["new"])
                if s is not None:
                    uu.add(s.uuid)
                    if st0 is not None and s.schema_fields != st0.schema_fields:
                        V.append({"clause": "I.schema_replaced", "flip": fl["n"],
                                  "msg": f"flip {fl['n']} by {fl['actor']}: persisted schema of the existing table changed"})
            except ir.IRError:
                pass
        if st0 is not None:
            uu.add(st0.uuid)
        if len(uu) > 1:
            V.append({"clause": "I.multiple_identities", "msg": f"[{cfg}] the pointer named versions of {len(uu)} different table uuids: {sorted(uu)}"})
        inits = [fl for fl in w.flips if fl["old"] is None]
        if len(inits) > 1 and plan["init"] in ("absent", "dirs_only"):
            V.append({"clause": "I.double_init", "msg": f"[{cfg}] {len(inits)} initialisations took effect"})
        if len(inits) >= 1 and len({f["actor"] for f in w.flips}) > 1:
            sim.probe("init_race")
        try:
            st = w.state()
            if st is None and plan["init"] in ("pointer_lost", "v0_only"):
                mf = w.reader.metadata_files(w.view())
                st = w.reader.state_of(w.view(), mf[-1][1], mf[-1][0]) if mf else None
                sim.probe("recovered_without_pointer")
        except ir.IRError as e:
            st = None
            V.append({"clause": "I.final_unreadable", "msg": f"[{cfg}] final table unreadable: {e}"})
        final_uuid = st.uuid if st else None
        if st0 is not None and st is not None:
            if st.uuid != st0.uuid:
                V.append({"clause": "I.identity_replaced", "msg": f"[{cfg}] existing table uuid {st0.uuid} replaced by {st.uuid}"})
            base = set(st0.current_rows())
            if not base <= set(st.current_rows()):
                V.append({"clause": "I.data_lost", "msg": f"[{cfg}] committed rows of the existing table are gone"})
        for r in (st.current_rows() if st else ()):
            if not any(k == "tag" for (k, _v) in r):
                V.append({"clause": "I.columnless_rows", "msg": f"[{cfg}] a row without columns was written"})
                break
        for h in w.history:
            k = h["op"]["kind"]
            if k == "observe" and h["outcome"] == "ok":
                got = h["resolved"].get("uuid")
                if got is not None and final_uuid is not None and got != final_uuid:
                    V.append({"clause": "I.caller_on_other_table",
                              "msg": f"[{cfg}] {h['actor']} ended on table {got}, the pointer names {final_uuid}"})
            if k in ("create", "ctor") and h["outcome"] == "raise":
                V.append({"clause": "I.create_raised", "msg": f"[{cfg}] {h['actor']} {k} raised {h.get('exc')}: {(h.get('msg') or '')[:200]}",
                          "sig": f"I.create_raised|{backend}|{plan['init']}|{h.get('exc')}"})
            if k == "load" and h["outcome"] == "raise" and plan["init"] not in ("absent", "dirs_only"):
                V.append({"clause": "I.load_raised", "msg": f"[{cfg}] {h['actor']} load_table raised {h.get('exc')} on an existing table: {(h.get('msg') or '')[:200]}",
                          "sig": f"I.load_raised|{backend}|{plan['init']}|{h.get('exc')}"})
            if k == "first_append" and h.get("resolved", {}).get("noinit") and h["outcome"] == "raise" and (
                    h.get("exc") == "ValueError" or "not initialized" in (h.get("msg") or "")
                    or "No Iceberg table" in (h.get("msg") or "")):
                # a handle opened without initialising: the table may not have existed (or had no schema) when the append
                # was queued - refusing is right whatever a racing creator does afterwards
                sim.probe("noinit_append_refused")
                continue
            if k == "first_append":
                if h["outcome"] == "raise" and h.get("exc") not in ("ValueError",):
                    V.append({"clause": "I.append_raised", "msg": f"[{cfg}] {h['actor']} first append raised {h.get('exc')}: {(h.get('msg') or '')[:200]}",
                              "sig": f"I.append_raised|{backend}|{plan['init']}|{h.get('exc')}"})
                if h["op"].get("prebuilt"):
                    # a pre-built file carries its own schema: refusing it is right unless it equals the persisted one
                    fs = "B" if h["op"].get("wide") else "A"
                    if h["outcome"] == "raise" and h.get("exc") == "ValueError" and st is not None \
                            and st.schema_fields == world.SCHEMAS[fs]:
                        V.append({"clause": "I.append_rejected",
                                  "msg": f"[{cfg}] {h['actor']} pre-built file written with the persisted schema {fs} was rejected: "
                                         f"{(h.get('msg') or '')[:160]}"})
                    continue
                if h["outcome"] == "raise" and h.get("exc") == "ValueError" and st is not None:
                    passed = h["op"].get("schema")
                    persisted = st.schema_fields
                    if not passed and persisted and not h["op"].get("fieldless"):
                        V.append({"clause": "I.append_rejected",
                                  "msg": f"[{cfg}] {h['actor']} schema-less append rejected although the table has a persisted schema: {(h.get('msg') or '')[:160]}"})
                    if passed and passed != "Ar" and (not persisted or persisted == world.SCHEMAS[passed]):
                        V.append({"clause": "I.append_rejected",
                                  "msg": f"[{cfg}] {h['actor']} append with a matching / first schema rejected: {(h.get('msg') or '')[:160]}"})
                if h["outcome"] == "ok" and st is not None and not h["op"].get("schema") and not st.schema_fields:
                    V.append({"clause": "I.schemaless_append_accepted",
                              "msg": f"[{cfg}] {h['actor']} append without any schema was accepted"})
        if st is not None and st.schema_fields:
            # the table has a persisted schema: whatever raced its creation, every committed file must be readable under
            # it (an append queued before the creation must not smuggle in a file written with another schema). Tables
            # WITHOUT a persisted schema are C11's business (known finding: nothing pins the first append's schema).
            for v in common.library_agrees(w, st):
                V.append(dict(v, msg=f"[{cfg}] {v['msg']}"))
        # acknowledged <=> committed, counting only non-initialising flips of each first append
        for h in w.history:
            if h["op"]["kind"] != "first_append":
                continue
            commits = [n for n in h.get("flips", []) if not (w.flips[n]["old"] is None and chk.fallback is None)]
            if h["outcome"] == "ok" and len(commits) != 1:
                V.append({"clause": "A.ack_flip_mismatch", "msg": f"[{cfg}] {h['actor']} append acknowledged with {len(commits)} commits"})
            if h["outcome"] == "raise" and commits:
                V.append({"clause": "A.raise_with_flip", "msg": f"[{cfg}] {h['actor']} append raised {h.get('exc')} but was committed"})
    elif sim.outcome == "deadlock":
        V.append({"clause": "L.deadlock", "msg": "callers blocked forever"})
    if sim.probes["cas_conflict"] or sim.probes["flock_contended"]:
        pass
    for v in V:
        v.setdefault("sig", f"{v['clause']}|{backend}|{plan['init']}")
    spans = [(h["invoke"], h.get("ret", 1 << 60), h["actor"]) for h in w.history if h["op"]["kind"] != "observe"]
    overl = any(a[2] != b[2] and a[0] < b[1] and b[0] < a[1] for a in spans for b in spans)
    nontrivial = overl and len(w.flips) >= 1
    res = common.assemble(ph, V, nontrivial, cfg, common.trace_sample(ph, plan), chk.state_sigs)
    w.cleanup()
    return res
