"""C15 — table metadata stays well-formed through every history."""
from __future__ import annotations

import random
from typing import List, Optional

from dsim import ir, model
from . import common, history

PROP = "C15"
LEVEL = "exploration"
BUDGET = {"quick": 60, "thorough": 900}
MIN_BUDGET = {"quick": 25, "thorough": 120}
RULE = ("seeded single-writer histories (5-14 ops) over {append in three call styles, two-append txn, delete file "
        "(+append, with/without leading slash), expire at a snapshot's timestamp -1/0/+1 (+append), delete_snapshot, "
        "retention-count property (valid and invalid values), metadata-log bound property (1/2/5 and invalid), "
        "schema-divergent append (rejected), rollback, GC, clock advance, handle reopen} on local and CAS-S3, fine, "
        "coarse and non-monotone (skewed writers taking turns) clocks. After every pointer flip the independent reader's state must equal model.apply(previous "
        "state, op) - snapshot set, parents = nearest surviving TRUE ancestor, sequence numbers, carried entries keep "
        "adding snapshot and sequence number, deletes remove exactly the named files, snapshot log, metadata log "
        "(content, order, bound, files exist) - and the state invariants hold (current retained, no dangling parent, "
        "seq <= last, strictly increasing in commit order). Distinct = SHA-1 of write/pointer events; non-trivial = "
        "the history removed at least one snapshot (expire / delete / retention) or rewrote a manifest.")
ASSUMPTIONS = common.BASE_ASSUMPTIONS + [
    "the 'exhaustive enumeration of small snapshot forests' clause of the quantifier is input enumeration of a pure "
    "function and is not covered: histories reach only the linear-chain forests the public API can build",
]
COMPONENTS = common.COMPONENTS
EXPECT_PROBES = ["snapshot_removed", "manifest_rewritten", "mlog_trimmed", "retention_applied", "flip"]
CLAUSES = None


def gen(rng: random.Random, tier: str, idx: int) -> dict:
    backend = "local" if rng.random() < 0.7 else "s3"
    clock = rng.choice(["fine", "fine", "coarse", "nonmono"])
    skews = [0.0, -5.0, -3600.0, 7.0, -0.5] if clock == "nonmono" else None
    return {"backend": backend, "clock": "fine" if clock == "nonmono" else clock, "label": clock,
            "quantum": rng.choice([0.05, 1.0]), "ops": history.gen_history(rng, n_hi=14 if tier == "quick" else 24, skews=skews)}


def shrink(plan: dict):
    import copy
    for j in range(len(plan["ops"])):
        p = copy.deepcopy(plan)
        del p["ops"][j]
        if p["ops"]:
            yield p


def execute(plan: dict, scratch: str, replay: Optional[dict] = None) -> dict:
    common.fresh_scratch(scratch)
    hr = history.HistoryRun(plan, scratch, CLAUSES)
    w, sim = hr.w, hr.sim
    V: List[dict] = []
    last = {"seq": 0}
    removed = [False]

    def after(rec):
        try:
            st = w.state(deep=True, rows=False)
        except ir.IRError as e:
            V.append({"clause": "W.unreadable", "msg": f"after {rec['op']['kind']}: {e}"})
            return
        if st is None:
            return
        for clause, msg in model.wellformed(st, hr.chk.commit_order):
            V.append({"clause": clause, "msg": f"after op#{rec['i']} {rec['op']['kind']}: {msg}"})
        if st.last_seq < last["seq"]:
            V.append({"clause": "W.last_seq_decreased", "msg": f"last_sequence_number {last['seq']} -> {st.last_seq}"})
        last["seq"] = st.last_seq
        try:
            mx = int(st.props.get(history.MLOG_MAX, "100"))
            if mx >= 1 and len(st.metadata_log) == mx and st.version is not None and st.version > mx:
                sim.probe("mlog_trimmed")
        except ValueError:
            pass
        try:
            r = int(st.props.get(history.RETENTION, "0"))
            if r >= 1 and len(hr.chk.commit_order) > len(st.snaps) and len(st.snaps) <= r + 1:
                sim.probe("retention_applied")
        except ValueError:
            pass
        view = w.view()
        for e in st.metadata_log:
            if not view.exists(e.get("metadata-file", "")):
                V.append({"clause": "W.mlog_missing_file", "msg": f"metadata log names missing file {e.get('metadata-file')}"})
        if rec["outcome"] == "raise" and rec["op"]["kind"] not in ("bad_append", "delete_snapshot", "requeue_fail"):
            V.append({"clause": "W.op_failed", "msg": f"fault-free {rec['op']['kind']} raised {rec.get('exc')}: {(rec.get('msg') or '')[:160]}",
                      "sig": f"W.op_failed|{rec['op']['kind']}|{rec.get('exc')}"})
    hr.run(after)
    if sim.outcome == "ok":
        V = hr.chk.problems + V
        V += common.final_state_checks(w, hr.chk)
        sizes = [int(s.split("/")[0]) for s in hr.chk.state_sigs]
        if any(b <= a for a, b in zip(sizes, sizes[1:])):
            sim.probe("snapshot_removed")
            removed[0] = True
        if any(h["op"]["kind"] == "delete_file" and h["outcome"] == "ok" and not h.get("resolved", {}).get("noop")
               for h in w.history):
            sim.probe("manifest_rewritten")
            removed[0] = True
    else:
        V = [] if sim.outcome != "deadlock" else [{"clause": "L.deadlock", "msg": "deadlock"}]
    for v in V:
        kinds = sorted({h["op"]["kind"] for h in w.history if h.get("flips") and v.get("flip") in h.get("flips", [])})
        v.setdefault("sig", f"{v['clause']}|{'+'.join(kinds) if kinds else '-'}")
    res = common.assemble(hr.ph, V, removed[0], f"{plan['backend']}/{plan.get('clock')}",
                          {"ops": [o["kind"] for o in plan["ops"]], "states": hr.chk.state_sigs}, hr.chk.state_sigs)
    w.cleanup()
    return res
