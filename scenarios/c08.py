"""C08 — a stale lock holder or delayed pointer write cannot lose an update on S3."""
from __future__ import annotations

import random
from typing import List, Optional

from dsim import core, ir
from . import common
from .common import Phase, RefineChecker

PROP = "C08"
LEVEL = "exploration"
BUDGET = {"quick": 60, "thorough": 900}
MIN_BUDGET = {"quick": 25, "thorough": 120}
RULE = ("2-3 committers on the CAS-S3 backend (separate processes, each 1-2 commits over {append, expire, "
        "delete_snapshot, property set}; in a third of the runs a second thread on one committer's own handle runs "
        "read-only maintenance - a collection with an enormous grace period, row counts - while it commits); 1-3 timing faults per run placed at a chosen S3 request of a commit (lock "
        "create / validation reads / pointer+ETag read / metadata PUT / fence read / pointer PUT / release): whole-"
        "process pause (heartbeat frozen too) or single-request stall (heartbeat keeps renewing) of 0.5-200 s, so "
        "leases (60 s) lapse, locks are taken over and conditional PUTs are delivered late; per-process clock skew up "
        "to +-90 s; in some runs the pointer PUT is applied and its response lost; in half of the runs the lock "
        "provider is replaced by one that grants everybody. Oracle: refinement of every pointer flip against the "
        "version it replaced (a flip built on another base is a lost update), acknowledged <=> flipped, and with the "
        "real lock every flip is preceded by a fence read that returned the committer's own id. Distinct = SHA-1 of "
        "write/lock/pointer events + fired faults; non-trivial = a CAS conflict on the pointer, a lock takeover or "
        "a failed fence occurred.")
ASSUMPTIONS = common.BASE_ASSUMPTIONS + [
    "LastModified has sub-second precision and comes from the store's (true virtual) clock; lease age is computed by "
    "the contender from its own, possibly skewed, clock",
    "the grant-all lock is a test double installed in place of S3LockProvider (acquire/is_held always true)",
]
COMPONENTS = common.COMPONENTS
EXPECT_PROBES = ["cas_conflict", "lock_takeover", "fence_failed", "commit_retry", "pause_fired", "hint_put_delayed"]

SITES = [("put", "LOCK"), ("get", "HINT"), ("get", "META"), ("head", "META"), ("put", "META"), ("get", "LOCK"),
         ("put", "HINT"), ("delete", "LOCK"), ("head", "HINT")]


def gen(rng: random.Random, tier: str, idx: int) -> dict:
    n = rng.randint(2, 3 if tier == "quick" else 4)
    actors = []
    for i in range(n):
        ops = []
        for j in range(rng.randint(1, 2)):
            r = rng.random()
            tag = f"a{i}.{j}"
            if r < 0.55:
                ops.append({"kind": "append", "tag": tag, "n": 1, "style": rng.choice(["records", "explicit"])})
            elif r < 0.7:
                ops.append({"kind": "expire", "tag": tag, "k": rng.randint(0, 3), "delta": rng.choice([0, 1])})
            elif r < 0.85:
                ops.append({"kind": "delete_snapshot", "k": rng.randint(0, 3)})
            else:
                ops.append({"kind": "set_prop", "key": f"k{rng.randint(0, 1)}", "value": tag})
        actors.append({"name": f"a{i}", "proc": f"p{i}", "ops": ops, "skew": rng.choice([0, 0, 0, 30, -30, 90, -90])})
    faults = []
    for _ in range(rng.randint(1, 3)):
        op, cls = rng.choice(SITES)
        faults.append({"kind": rng.choice(["pause", "pause", "stall"]), "actor": f"a{rng.randrange(n)}", "op": op,
                       "cls": cls, "nth": rng.choice([1, 1, 2, 3]),
                       "dt": rng.choice([0.5, 5.0, 25.0, 45.0, 61.0, 75.0, 130.0, 200.0])})
    if rng.random() < 0.15:
        faults.append({"kind": "error_after", "actor": f"a{rng.randrange(n)}", "op": "put", "cls": "HINT", "nth": 1,
                       "exc": "EndpointConnectionError"})
    if rng.random() < 0.35:
        # a second THREAD on committer a0's own handle doing read-only maintenance (collection with an enormous grace
        # period, scans): it reads the pointer without taking the commit lock while a0 is mid-commit
        k = rng.randint(1, 3)
        actors.append({"name": "g0", "proc": "p0", "skew": actors[0]["skew"],
                       "ops": [rng.choice([{"kind": "gc", "grace_ms": 10 ** 9}, {"kind": "gc", "grace_ms": 10 ** 9},
                                           {"kind": "row_count"}, {"kind": "sleep", "dt": rng.choice([0.05, 1.0, 30.0])}])
                               for _ in range(k)]})
    setup = [{"kind": "append", "tag": f"s{k}", "n": 1} for k in range(rng.randint(1, 3))]
    return {"backend": "s3", "setup": setup, "actors": actors, "faults": faults, "grant_all": rng.random() < 0.5,
            "policy": common.gen_policy(rng, 800),
            # the table's pointer object is LOST before the committers start (a state the library supports: it recovers
            # the current version by scanning metadata/): the first commit's pointer write is a create-if-absent
            "pointer_lost": rng.random() < 0.15}


def shrink(plan: dict):
    yield from common.generic_shrink(plan)


class GrantAll:
    def __init__(self):
        self.held = False

    def acquire(self):
        self.held = True
        return True

    def release(self):
        self.held = False

    def is_held(self):
        return True


def execute(plan: dict, scratch: str, replay: Optional[dict] = None) -> dict:
    from datashard import storage_backend
    common.fresh_scratch(scratch)
    seed = plan.get("run_seed", 0)
    orig = storage_backend.S3StorageBackend.create_lock
    try:
        ph0 = common.run_setup(scratch, "s3", seed, list(plan.get("setup", [])))
        if plan.get("grant_all"):
            storage_backend.S3StorageBackend.create_lock = lambda self, path, timeout=30.0: GrantAll()
        st0 = ph0.world.state()
        order0 = [sid for (_t, sid) in st0.snapshot_log] if st0 else []
        ph = Phase(plan, scratch, "s3", seed, common.make_policy(plan.get("policy", {}), seed ^ 0x5EED, replay),
                   faults=plan.get("faults"), start=ph0.sim.now + 1.0, store=ph0.world.store, max_steps=30000)
        w, sim = ph.world, ph.sim
        w.store.keep_history = True
        w.store.history = []
        chk = RefineChecker(w, commit_order=order0)
        if plan.get("pointer_lost"):
            w.store.bucket(w.bucket).pop(f"{w.prefix}/{ir.HINT}", None)
            w.resync_hint()
            chk.fallback = st0
            sim.probe("pointer_lost_start")
        byproc = {}
        for a in plan["actors"]:
            byproc.setdefault(a["proc"], []).append(a)
        for proc, acts in byproc.items():
            if len(acts) == 1:
                ph.actor(proc, acts[0]["name"], acts[0]["ops"], skew=float(acts[0].get("skew", 0)))
            else:
                ph.sim.proc(proc, float(acts[0].get("skew", 0)))
                ph.shared(proc, [(a["name"], a["ops"]) for a in acts])
        ph.run()
    finally:
        storage_backend.S3StorageBackend.create_lock = orig
    V: List[dict] = []
    amb = any(f["kind"] == "error_after" for f in plan.get("faults", []))
    if sim.outcome == "ok":
        V += chk.problems
        V += common.final_state_checks(w, chk, allow_ambiguous=amb)
        try:
            st = w.state()
        except ir.IRError as e:
            st = None
            V.append({"clause": "A.final_unreadable", "msg": f"final table unreadable: {e}"})
        if not amb:
            V += common.tag_conservation(w, st)
        # fence oracle (real lock only)
        if not plan.get("grant_all"):
            lw = sim.extra.get("lock_writes", [])
            lr = sim.extra.get("lock_reads", [])
            for fl in w.flips:
                if fl.get("restore"):
                    continue       # re-creation of a lost pointer naming the current version: not a commit point
                root = fl["actor"].split("/")[0]
                ids = [b for (_g, a, b, _m) in lw if a.split("/")[0] == root and _g < fl["gstep"]]
                myid = ids[-1] if ids else None
                # the fence read-back is issued by the COMMITTING thread itself (its lock's heartbeat thread may also GET
                # the lock object - to re-synchronise after a failed renewal - and learn of a takeover later)
                reads = [(g, b) for (g, a, b) in lr if a == fl["actor"] and g < fl["gstep"]]
                # last request of this committer on the lock key before the flip
                # (evidence of ownership right before the commit point: a read-back, or a conditional write of its own
                #  that succeeded - either proves the lock object still named this committer at that instant)
                metas = [h[0] for h in w.store.history if h[1] == fl["actor"] and h[0] < fl["gstep"] and h[2] == "put"
                         and h[3].endswith(".metadata.json")]
                g_meta = metas[-1] if metas else -1      # the fence belongs AFTER this attempt's metadata write
                last_lock = [h for h in w.store.history if h[1] == fl["actor"] and g_meta < h[0] < fl["gstep"]
                             and h[3].endswith(".lock") and (h[2] == "get" or (h[2] == "put" and h[4] == "ok"))]
                if not last_lock:
                    V.append({"clause": "S.no_fence", "flip": fl["n"],
                              "msg": f"flip {fl['n']} by {fl['actor']}: no ownership read-back of the lock before the pointer write"})
                    continue
                g_last, _a, _op, _k, outcome = last_lock[-1]
                if _op == "put":
                    continue       # its own conditional lock write succeeded right before the flip
                body = next((b for (g, b) in reversed(reads) if g == g_last), None)
                if outcome != "ok" or body != myid:
                    V.append({"clause": "S.flip_after_failed_fence", "flip": fl["n"],
                              "msg": f"flip {fl['n']} by {fl['actor']}: its last lock read-back before the pointer write "
                                     f"returned {outcome}/{body!r}, not its own id {myid!r}, yet it went on to commit"})
            for (g, a, b) in lr:
                root = a.split("/")[0]
                ids = [bb for (_g, aa, bb, _m) in lw if aa.split("/")[0] == root and _g < g]
                if ids and b != ids[-1]:
                    sim.probe("fence_failed")
        for f in sim.fired_log:
            if f["kind"] in ("pause", "stall"):
                sim.probe("pause_fired")
                if f["op"] == "put" and f["cls"] == "HINT":
                    sim.probe("hint_put_delayed")
    elif sim.outcome == "deadlock":
        V.append({"clause": "L.deadlock", "msg": "committers blocked forever"})
    p = sim.probes
    nontrivial = (p["cas_conflict"] + p["lock_takeover"] + p["fence_failed"]) > 0 and len(w.flips) >= 2
    for v in V:
        kinds = sorted({h["op"]["kind"] for h in w.history if h.get("flips") and v.get("flip") in h.get("flips", [])})
        v["sig"] = (f"{v['clause']}|{'+'.join(kinds) if kinds else '-'}|{'grantall' if plan.get('grant_all') else 'caslock'}"
                    + ("|pointer_lost" if plan.get("pointer_lost") else ""))
    cfg = "s3/" + ("grantall" if plan.get("grant_all") else "caslock") + ("/pointer_lost" if plan.get("pointer_lost") else "")
    res = common.assemble(ph, V, nontrivial, cfg, common.trace_sample(ph, plan), chk.state_sigs)
    w.cleanup()
    return res
