"""Shared scenario machinery: phases, refinement checker, result assembly, generic shrinker."""
from __future__ import annotations

import copy
import hashlib
import os
import random
import shutil
from typing import Any, Callable, Dict, List, Optional, Tuple

from dsim import core, ir, model, s3fake, world
from dsim.core import Sim

COMPONENTS = {
    "real": ["datashard (all modules, unmodified, imported from /repo/src)", "pyarrow parquet encode/decode",
             "fastavro", "json/hashlib", "kernel flock (real fcntl.flock on real files)",
             "real directory tree on tmpfs for the local backend"],
    "stub": ["S3 service + boto3 client (in-memory, strongly consistent, md5 ETags, conditional PUT)",
             "pyarrow.fs.S3FileSystem (PyFileSystem over the same store)", "clocks and sleeps (virtual)",
             "uuid4 / random jitter / temp names (seeded per actor)", "threading.RLock/Lock/Event/Thread inside "
             "datashard modules (sim-aware)", "ThreadPoolExecutor (child actors)", "fsync (recorded, not executed)",
             "shutil.disk_usage"],
}

BASE_ASSUMPTIONS = [
    "S3 model: single-copy strongly consistent store, ETag = md5(body), If-None-Match:* / If-Match honoured atomically",
    "context switches happen only at seam calls (os-level calls, flock, S3 requests, sleeps, sim-aware locks)",
    "independent reader shares fastavro / pyarrow with the code under test (trusted base)",
    "two handles in one interpreter model two OS processes (flock is per open file description)",
]


def make_policy(spec: dict, seed: int, replay: Optional[dict]) -> core.Policy:
    if replay is not None:
        return core.ReplayPolicy(replay)
    kind = spec.get("kind", "random")
    if kind == "random":
        base: core.Policy = core.RandomPolicy(seed, spec.get("p", 0.1))
    elif kind == "pct":
        base = core.PCTPolicy(seed, spec.get("depth", 3), spec.get("horizon", 2000))
    else:
        base = core.Policy()
    holds = list(spec.get("holds", []))
    if spec.get("hold"):
        holds.append(spec["hold"])
    for h in holds:
        base = core.HoldPolicy(base, h["actor"], h.get("op"), h.get("cls"), h.get("nth", 1),
                               h.get("until"), h.get("until_ops", 1))
    return base


def gen_policy(rng: random.Random, est_steps: int = 1500) -> dict:
    r = rng.random()
    if r < 0.45:
        return {"kind": "random", "p": rng.choice([0.01, 0.03, 0.1, 0.3, 0.6])}
    if r < 0.9:
        return {"kind": "pct", "depth": rng.choice([1, 2, 3, 5]), "horizon": est_steps}
    return {"kind": "default"}


class Phase:
    """One Sim + World over a persistent scratch/store; phases run back to back on a common clock."""

    def __init__(self, plan: dict, scratch: str, backend: str, seed: int, policy: core.Policy,
                 faults: Optional[list] = None, start: float = 0.0, store=None, location: str = "tbl",
                 table_path: Optional[str] = None, clock_mode: str = "fine", clock_quantum: float = 0.001,
                 max_steps: int = 20000, s3_env_prefix: str = ""):
        lat = (10e-6, 200e-6) if backend == "local" else (1e-3, 30e-3)
        self.sim = Sim(seed, policy=policy, faults=faults, start=start, clock_mode=clock_mode,
                       clock_quantum=clock_quantum, max_steps=max_steps, lat=lat)
        self.world = world.World(self.sim, backend, scratch, location=location, table_path=table_path,
                                 store=store, s3_env_prefix=s3_env_prefix)

    def actor(self, proc: str, name: str, ops: List[dict], opener: Optional[Callable] = None,
              skew: float = 0.0) -> world.Ctx:
        w = self.world
        ctx = world.Ctx(w, name, opener or (lambda: w.open_table(create=False)))
        self.sim.spawn(self.sim.proc(proc, skew), name, lambda: world.run_ops(ctx, ops))
        return ctx

    def shared(self, proc: str, names_ops: List[Tuple[str, List[dict]]], opener: Optional[Callable] = None
               ) -> None:
        """Threads sharing one handle: an init actor opens the table, then spawns the threads."""
        w = self.world
        p = self.sim.proc(proc)
        ctx = world.Ctx(w, proc, opener or (lambda: w.open_table(create=False)))

        def init():
            ctx.table  # open
            for nm, ops in names_ops:
                c2 = world.Ctx(w, nm, lambda: ctx.table)
                c2._table = ctx._table
                self.sim.spawn(p, nm, lambda c2=c2, ops=ops: world.run_ops(c2, ops))
        self.sim.spawn(p, f"{proc}/init", init)

    def run(self) -> str:
        return self.sim.run()


def run_setup(scratch: str, backend: str, seed: int, ops: List[dict], create_kw: Optional[dict] = None,
              **kw) -> Phase:
    """Phase 0: one actor creates the table and runs `ops` sequentially (no faults)."""
    ph = Phase({}, scratch, backend, seed, core.Policy(), **kw)
    ckw = create_kw or {}
    ctx = world.Ctx(ph.world, "setup", lambda: ph.world.open_table(create=True, **ckw))
    ph.sim.spawn(ph.sim.proc("setup"), "setup", lambda: world.run_ops(ctx, [{"kind": "open"}] + ops))
    out = ph.run()
    if out != "ok" or any(h["outcome"] != "ok" for h in ph.world.history):
        raise core.HarnessError(f"setup failed: {out} {ph.sim.harness_errors} "
                                f"{[(h['op'], h.get('exc'), h.get('msg')) for h in ph.world.history if h['outcome'] != 'ok']}")
    return ph


class RefineChecker:
    """Checks M[k] == apply(M[k-1], op) at every pointer flip, with the IR."""

    def __init__(self, w: world.World, commit_order: Optional[List[int]] = None, clauses: Optional[set] = None):
        self.w = w
        self.states: Dict[str, ir.TableState] = {}
        self.problems: List[dict] = []
        self.commit_order: List[int] = list(commit_order or [])
        self.flip_ops: List[Tuple[int, Optional[dict]]] = []
        self.clauses = clauses
        self.state_sigs: List[str] = []
        self.fallback: Optional[ir.TableState] = None
        self.max_version = -1
        w.on_flip.append(self.on_flip)

    def state_for(self, hint: Optional[bytes]) -> Optional[ir.TableState]:
        if hint is None:
            return None
        p = ir.parse_hint(hint)
        if p is None:
            return None
        v, fn = p
        if fn not in self.states:
            self.states[fn] = self.w.reader.state_of(self.w.view(), fn, v, deep=True, rows=True)
        return self.states[fn]

    def on_flip(self, flip: dict) -> None:
        rec = flip["cur_op"]
        flip["rec"] = rec
        try:
            N = self.state_for(flip["new"])
            P = self.state_for(flip["old"])
        except ir.IRError as e:
            self.problems.append({"clause": "R.unreadable", "msg": f"flip {flip['n']} by {flip['actor']}: {e}",
                                  "flip": flip["n"]})
            return
        if P is None and flip["old"] is None:
            P = self.fallback          # pointer was missing: the recoverable version (if any) is the base
        if N is None:
            self.problems.append({"clause": "R.pointer", "flip": flip["n"],
                                  "msg": f"flip {flip['n']} by {flip['actor']} wrote an unusable pointer {flip['new']!r}"})
            return
        res = dict(rec.get("resolved", {})) if rec else {}
        if flip["old"] is None and self.fallback is None:
            res = {"init": True}
        mutating = any(k in res for k in ("appends", "deletes", "expire", "delete_snapshot", "set_prop", "init", "file_op"))
        if N.version is not None:
            if P is not None and N.pointer == P.pointer:
                # the pointer is (re)written naming the very file that already is the current version: a restore of a
                # lost pointer, never a commit (a commit always names a brand-new metadata file) - whoever performs it,
                # an opener or a committer that restores the pointer before it commits
                self.w.sim.probe("pointer_rewritten_same_target")
                flip["restore"] = True
                if rec is not None and flip["n"] in rec.get("flips", []):
                    rec["flips"].remove(flip["n"])
                return
            if not mutating and N.version < self.max_version:
                self.problems.append({"clause": "R.pointer_regressed", "flip": flip["n"],
                                      "msg": f"flip {flip['n']} by {flip['actor']} ({rec['op']['kind'] if rec else '?'}) re-pointed the "
                                             f"table at version {N.version} although version {self.max_version} had been committed"})
                return
            self.max_version = max(self.max_version, N.version)
        probs = model.refine(P, N, res, self.commit_order)
        for s in N.snaps:
            if s.id not in self.commit_order and (P is None or P.snap(s.id) is None):
                self.commit_order.append(s.id)
        probs += model.wellformed(N, self.commit_order)
        for clause, msg in probs:
            if self.clauses is None or clause in self.clauses or clause.split(".")[0] in self.clauses:
                self.problems.append({"clause": clause, "flip": flip["n"],
                                      "msg": f"flip {flip['n']} by {flip['actor']} "
                                             f"({rec['op']['kind'] if rec else '?'}): {msg}"})
        cur = N.current()
        self.state_sigs.append(f"{len(N.snaps)}/{len(cur.files) if cur else 0}/{N.version}")


def final_state_checks(w: world.World, checker: RefineChecker, allow_ambiguous: bool = False) -> List[dict]:
    """End of run: acknowledged <-> flips bijection, raised => no flip, row conservation."""
    out: List[dict] = []
    for rec in w.history:
        res = rec.get("resolved", {})
        mutating = bool(res.get("appends") or res.get("deletes") or "expire" in res or "set_prop" in res
                        or ("delete_snapshot" in res and res.get("returned", True)))
        nfl = len(rec.get("flips", []))
        if rec["outcome"] == "ok":
            if mutating and nfl != 1:
                out.append({"clause": "A.ack_without_flip" if nfl == 0 else "A.ack_multi_flip",
                            "msg": f"{rec['actor']} op#{rec['i']} {rec['op']['kind']} returned success with {nfl} pointer flips"})
            if not mutating and nfl != 0 and rec["op"]["kind"] not in ("open",):
                out.append({"clause": "A.flip_by_nonmutating",
                            "msg": f"{rec['actor']} op#{rec['i']} {rec['op']['kind']} flipped the pointer"})
        elif rec["outcome"] == "raise":
            amb = rec.get("exc") == "AmbiguousCommitError"
            if nfl != 0 and not (amb and allow_ambiguous):
                out.append({"clause": "A.raise_with_flip",
                            "msg": f"{rec['actor']} op#{rec['i']} {rec['op']['kind']} raised {rec.get('exc')} "
                                   f"but its commit became visible ({nfl} flips)"})
    return out


def tag_conservation(w: world.World, st: Optional[ir.TableState]) -> List[dict]:
    """Every acknowledged append's rows are in the final table exactly once unless an acknowledged
    delete removed their file; rows of raised appends are absent."""
    out: List[dict] = []
    if st is None:
        return out
    rows = st.current_rows()
    from collections import Counter
    have = Counter(r for r in rows)
    deleted_rows = set()
    for rec in w.history:
        pass
    dup = [r for r, c in have.items() if c > 1]
    if dup:
        out.append({"clause": "A.duplicate_rows", "msg": f"{len(dup)} rows appear more than once, e.g. {dup[0]}"})
    acked = []
    raised = []
    for rec in w.history:
        res = rec.get("resolved", {})
        for part in res.get("appends", []):
            keys = [ir.row_key(r) for r in part]
            if rec["outcome"] == "ok":
                acked.append((rec, keys))
            elif rec["outcome"] == "raise" and rec.get("exc") != "AmbiguousCommitError":
                raised.append((rec, keys))
    # rows legitimately disappear through file deletes and through deleting the current snapshot
    # (repointing); those histories are covered by the refinement chain only.
    any_delete = any(r["op"]["kind"] in ("delete_file", "delete_snapshot") for r in w.history)
    for rec, keys in raised:
        if any(k in have for k in keys):
            out.append({"clause": "A.raised_visible",
                        "msg": f"{rec['actor']} op#{rec['i']} raised {rec.get('exc')} but its rows are in the table"})
    if not any_delete:
        for rec, keys in acked:
            if not all(have.get(k, 0) == 1 for k in keys):
                out.append({"clause": "A.acked_lost",
                            "msg": f"{rec['actor']} op#{rec['i']} {rec['op']['kind']} was acknowledged but its rows "
                                   f"are not in the final table exactly once"})
    return out


def library_agrees(w: world.World, st: Optional[ir.TableState]) -> List[dict]:
    """A fresh handle's scan() equals the independent reader's current rows (harness thread, no seams)."""
    out: List[dict] = []
    try:
        import datashard
        t = datashard.load_table(w.table_path)
        got = tuple(sorted((ir.row_key(r) for r in t.scan()), key=repr))
        want = st.current_rows() if st else ()
        if got != want:
            out.append({"clause": "A.library_vs_ir", "msg": f"library scan returns {len(got)} rows, independent "
                                                            f"reader {len(want)} rows"})
    except Exception as e:
        out.append({"clause": "A.library_read_failed", "msg": f"fresh handle cannot read the final table: {e!r}"[:300]})
    return out


def sched_signature(sim: Sim) -> str:
    """SHA-1 over the sequence of (actor, op, class) of write/lock/pointer/metadata events."""
    h = hashlib.sha1()
    for (_g, _t, actor, op, target, outcome) in sim.log:
        if op in ("replace", "put", "delete", "remove", "flock", "unflock", "create") or "HINT" in target \
                or target == ir.HINT:
            h.update(f"{actor}|{op}|{target.split('/')[0]}|{outcome[:3]};".encode())
    for f in sim.fired_log:
        h.update(f"F|{f['kind']}|{f['actor']}|{f['step']}|{f['op']}|{f['cls']};".encode())
    return h.hexdigest()


def assemble(ph: Phase, violations: List[dict], nontrivial: bool, config: str, sample: Any = None,
             state_sigs: Optional[List[str]] = None, extra_probes: Optional[dict] = None) -> dict:
    sim = ph.sim
    probes = dict(sim.probes)
    if extra_probes:
        for k, v in extra_probes.items():
            probes[k] = probes.get(k, 0) + v
    for v in violations:
        v.setdefault("sig", v["clause"])
    return {"outcome": sim.outcome, "violations": violations, "probes": probes, "fired": dict(sim.fired),
            "fired_log": sim.fired_log[:20], "steps": sim.gstep, "vtime": sim.now - sim.start,
            "sched_sig": sched_signature(sim), "state_sigs": state_sigs or [], "digest": sim.digest(),
            "deviations": dict(sim.deviations), "nontrivial": nontrivial, "config": config,
            "sample": sample, "harness": "\n".join(sim.harness_errors)[-3000:]}


def trace_sample(ph: Phase, plan: dict, limit: int = 40) -> dict:
    ev = [f"{g}:{a}:{op}:{t}:{o}" for (g, _vt, a, op, t, o) in ph.sim.log
          if op in ("replace", "put", "flock", "unflock", "delete", "remove")][:limit]
    return {"plan": {k: plan[k] for k in plan if k not in ("run_seed",)},
            "history": [{"actor": h["actor"], "op": h["op"]["kind"], "outcome": h["outcome"], "exc": h.get("exc"),
                         "invoke": h["invoke"], "ret": h.get("ret"), "flips": h.get("flips")}
                        for h in ph.world.history],
            "write_events": ev}


def generic_shrink(plan: dict):
    """Candidates one step smaller: drop an actor, drop an op, drop a setup op, drop a fault,
    simplify the policy / clock."""
    actors = plan.get("actors", [])
    if len(actors) > 1:
        for i in range(len(actors)):
            p = copy.deepcopy(plan)
            del p["actors"][i]
            yield p
    for i, a in enumerate(actors):
        for j in range(len(a.get("ops", []))):
            if len(a["ops"]) <= 1 and len(actors) <= 1:
                continue
            p = copy.deepcopy(plan)
            del p["actors"][i]["ops"][j]
            if not p["actors"][i]["ops"]:
                del p["actors"][i]
            if p["actors"]:
                yield p
    for j in range(len(plan.get("setup", []))):
        p = copy.deepcopy(plan)
        del p["setup"][j]
        yield p
    for j in range(len(plan.get("faults", []))):
        p = copy.deepcopy(plan)
        del p["faults"][j]
        yield p
    for j in range(len(plan.get("policy", {}).get("holds", []))):
        p = copy.deepcopy(plan)
        del p["policy"]["holds"][j]
        yield p
    if plan.get("policy", {}).get("kind") not in (None, "default") and not plan.get("policy", {}).get("hold") \
            and not plan.get("policy", {}).get("holds"):
        p = copy.deepcopy(plan)
        p["policy"] = {"kind": "default"}
        yield p
    for i, a in enumerate(actors):
        for j, op in enumerate(a.get("ops", [])):
            if op.get("n", 1) > 1:
                p = copy.deepcopy(plan)
                p["actors"][i]["ops"][j]["n"] = 1
                yield p


def fresh_scratch(scratch: str) -> None:
    import gc
    if Sim.current is None:
        gc.collect()        # between runs only (see seams.install)
    shutil.rmtree(scratch, ignore_errors=True)
    os.makedirs(scratch, exist_ok=True)


# ---------------------------------------------------------------------------- snapshots of the world
class Snapshot:
    """Copy of the storage (local tree incl. mtimes, or the S3 store) taken between phases, so a
    fault sweep can restart an operation from the same durable state many times."""

    def __init__(self, ph: Phase):
        self.backend = ph.world.backend
        self.now = ph.sim.now
        self.scratch = ph.world.scratch
        if self.backend == "local":
            self.root = ph.world.root
            self.copy = os.path.join(self.scratch, "_snap")
            shutil.rmtree(self.copy, ignore_errors=True)
            if os.path.isdir(self.root):
                shutil.copytree(self.root, self.copy, symlinks=True)
            else:
                self.copy = None
            self.store = None
        else:
            self.store = ph.world.store
            self.snap = ph.world.store.snapshot()

    def restore(self):
        if self.backend == "local":
            shutil.rmtree(self.root, ignore_errors=True)
            if self.copy is not None:
                shutil.copytree(self.copy, self.root, symlinks=True)
            return None
        self.store.restore(self.snap)
        return self.store


def state_key(st: Optional[ir.TableState]):
    """Comparable identity of a table state (what 'exactly the pre-state / post-state' means)."""
    if st is None:
        return None
    return (st.uuid, st.current_id, st.last_seq, tuple(sorted(st.props.items())),
            tuple((s.id, None if s.parent in (None, -1) else s.parent, s.seq, s.ts, s.mlist,
                   tuple(sorted((p, f.sha) for p, f in s.files.items()))) for s in st.snaps),
            tuple(st.snapshot_log))


def listing(w: world.World) -> set:
    return set(w.view().list(""))


def merge_results(results: List[dict], plan: dict, config: str) -> dict:
    """Fold sub-run results (one per fault point) into one result record for the runner."""
    out = {"outcome": "ok", "violations": [], "probes": {}, "fired": {}, "fired_log": [], "steps": 0, "vtime": 0.0,
           "sched_sigs": [], "nontrivial_sigs": [], "state_sigs": [], "digest": "", "deviations": None,
           "nontrivial": False, "config": config, "sample": None, "harness": "", "evaluations": len(results)}
    from collections import Counter
    pr, fr = Counter(), Counter()
    dg = hashlib.sha256()
    for r in results:
        if r["outcome"] not in ("ok",) and out["outcome"] == "ok":
            out["outcome"] = r["outcome"]
            out["harness"] = r.get("harness", "")
        out["violations"] += r["violations"]
        pr.update(r["probes"])
        fr.update(r["fired"])
        out["steps"] += r["steps"]
        out["vtime"] += r["vtime"]
        out["sched_sigs"].append(r["sched_sig"])
        if r.get("nontrivial"):
            out["nontrivial_sigs"].append(r["sched_sig"])
        out["state_sigs"] += r.get("state_sigs", [])
        dg.update((r.get("digest") or "").encode())
        if out["sample"] is None and r.get("sample") is not None:
            out["sample"] = r["sample"]
        if not out["fired_log"]:
            out["fired_log"] = r.get("fired_log", [])
    out["probes"], out["fired"] = dict(pr), dict(fr)
    out["digest"] = dg.hexdigest()
    return out


# ---------------------------------------------------------------------------- garbage-collection oracle
GC_DIRS = ("data/", "metadata/manifests/")


def gc_deleted(sim: Sim, actor_name: str, lo: int, hi: int) -> List[str]:
    """Paths actually removed by `actor_name` between global steps lo..hi (from the event log)."""
    out = []
    for (g, _t, a, op, target, outcome) in sim.log:
        if a == actor_name and lo < g <= hi and op in ("remove", "delete") and outcome == "ok":
            out.append(target)
    return out


def marker_targets(view, reader: ir.Reader) -> Dict[str, Tuple[str, float]]:
    """marker path -> (protected path, marker mtime), read independently of datashard."""
    import json as _json
    out = {}
    for m in view.list("metadata/inflight"):
        if not m.endswith(".inflight"):
            continue
        try:
            tgt = _json.loads(view.read(m).decode("utf-8")).get("file_path")
        except Exception:
            tgt = None
        if not isinstance(tgt, str) or not tgt:
            tgt = "data/" + m.rsplit("/", 1)[-1][:-len(".inflight")]
        out[m] = (tgt.lstrip("/"), view.mtime(m))
    return out


def gc_protected_before(w: world.World, now: float, inflight_timeout_s: float = 24 * 3600.0) -> Tuple[set, set]:
    """(files protected by a fresh marker, the fresh markers themselves) at time `now`."""
    prot, fresh = set(), set()
    for m, (tgt, mt) in marker_targets(w.view(), w.reader).items():
        if now - mt <= inflight_timeout_s:
            prot.add(tgt)
            fresh.add(m)
    return prot, fresh
