"""C03 — a crash at any point leaves the table in the pre- or post-operation state."""
from __future__ import annotations

import random
from typing import List, Optional

from dsim import core, ir, world
from . import common
from .common import Phase

PROP = "C03"
LEVEL = "fault_enumeration"
BUDGET = {"quick": 60, "thorough": 900}
MIN_BUDGET = {"quick": 20, "thorough": 60}
RULE = ("seeded history of 0-4 committed operations, then one operation under test (create with/without schema, "
        "append in three call styles, two-append transaction, file delete, expire, delete_snapshot, GC with seeded "
        "grace) executed once crash-free to count its N storage-level seam calls, then re-executed from a restored "
        "copy of the storage with the writing process killed before its k-th seam call (quick: sampled k; thorough: "
        "every k in 1..N); after each crash a fresh process reopens, reads with the independent reader and the "
        "library, appends, advances the clock 25 h and garbage-collects; backends local, CAS-S3 and non-CAS S3. One evaluation = one (history, operation, "
        "k). Distinct = SHA-1 of the write/lock/pointer event sequence up to the crash; non-trivial = the crash "
        "landed after the operation's first write and before its last seam call. Operations include append_files of a pre-built file (also handed over too early).")
ASSUMPTIONS = common.BASE_ASSUMPTIONS + [
    "process death = no further storage effect from that process, its fds closed (kernel releases flock); on S3 "
    "the lock object remains and recovery starts after the 60 s lease",
    "bytes written by Arrow C++ between two seam calls are atomic with respect to the crash point",
    "a table whose v0 metadata file is published but whose pointer is missing counts as created (C10/C18)",
]
COMPONENTS = common.COMPONENTS
EXPECT_PROBES = ["crash_after_flip", "crash_before_flip", "recovered_post", "recovered_pre", "gc_deleted_leftover"]

OPS = ["create", "create_noschema", "append", "append_with", "append_explicit", "multi", "delete_file",
       "delete_file_append", "expire", "expire_append", "delete_snapshot", "gc0", "gc1h",
       "files_append_raw", "files_append_raw_late"]


def op_under_test(name: str) -> dict:
    if name in ("create", "create_noschema"):
        return {"kind": "open"}
    if name == "append":
        return {"kind": "append", "tag": "ut", "n": 2, "style": "records"}
    if name == "append_with":
        return {"kind": "append", "tag": "ut", "n": 2, "style": "with"}
    if name == "append_explicit":
        return {"kind": "append", "tag": "ut", "n": 2, "style": "explicit"}
    if name == "multi":
        return {"kind": "multi", "tag": "ut", "n": 1, "style": "with"}
    if name == "delete_file":
        return {"kind": "delete_file", "tag": "ut", "k": 0}
    if name == "delete_file_append":
        return {"kind": "delete_file", "tag": "ut", "k": 1, "with_append": True}
    if name == "expire":
        return {"kind": "expire", "tag": "ut", "k": 1, "delta": 0}
    if name == "expire_append":
        return {"kind": "expire", "tag": "ut", "k": 1, "delta": 1, "with_append": True}
    if name == "delete_snapshot":
        return {"kind": "delete_snapshot", "k": 1}
    if name == "files_append_raw":
        # a pre-built file written by the user's own writer (no fsync), then registered with append_files()
        return {"kind": "files_append", "tag": "ut", "n": 2, "raw": True}
    if name == "files_append_raw_twice":
        # one transaction, TWO append_files() calls; the second file (in a new directory) is created after the first call
        return {"kind": "files_append", "tag": "ut", "n": 1, "raw": True, "second": {"dir": "p=2"}}
    if name == "files_append_raw_twice_flat":
        return {"kind": "files_append", "tag": "ut", "n": 1, "raw": True, "dir": "p=1", "second": {"dir": "p=1", "name": "pre_second"}}
    if name == "files_append_raw_late":
        # append_files() called before the caller's writer has produced the file (raises), then again on the same transaction
        return {"kind": "files_append", "tag": "ut", "n": 2, "raw": True, "late": "missing"}
    if name == "files_append_raw_late_garbage":
        return {"kind": "files_append", "tag": "ut", "n": 1, "raw": True, "dir": "p=1", "late": "garbage"}
    if name == "files_append_raw_dir":
        return {"kind": "files_append", "tag": "ut", "n": 2, "raw": True, "dir": "p=1"}
    if name == "gc0":
        return {"kind": "gc", "grace_ms": 0}
    if name == "gc1h":
        return {"kind": "gc", "grace_ms": 3600000}
    raise ValueError(name)


def gen(rng: random.Random, tier: str, idx: int) -> dict:
    r0 = rng.random()
    backend = "local" if r0 < 0.6 else ("s3" if r0 < 0.9 else "s3poll")
    name = OPS[idx % len(OPS)] if rng.random() < 0.7 else rng.choice(OPS)
    setup: List[dict] = []
    if not name.startswith("create"):
        for k in range(rng.randint(0, 4)):
            r = rng.random()
            if r < 0.6:
                setup.append({"kind": "append", "tag": f"s{k}", "n": rng.randint(1, 2)})
            elif r < 0.75:
                setup.append({"kind": "multi", "tag": f"s{k}", "n": 1})
            elif r < 0.85:
                setup.append({"kind": "delete_file", "tag": f"s{k}", "k": rng.randint(0, 3)})
            elif r < 0.93:
                setup.append({"kind": "expire", "tag": f"s{k}", "k": rng.randint(0, 3), "delta": 0})
            else:
                setup.append({"kind": "delete_snapshot", "k": rng.randint(0, 3)})
        if name.startswith("gc"):
            # leave orphans for the collector: a rolled-back-by-crash style leftover is produced by
            # expiring + deleting files, so the GC under test has real work
            setup.append({"kind": "append", "tag": "sg", "n": 1})
            setup.append({"kind": "delete_file", "tag": "sgd", "k": 0})
            setup.append({"kind": "expire", "tag": "sge", "k": 99, "delta": 1})
            setup.append({"kind": "sleep", "dt": 7200.0})
    return {"backend": backend, "op": name, "setup": setup,
            "crash_points": None, "sample_k": 8 if tier == "quick" else None, "k_seed": rng.randrange(1 << 30)}


def shrink(plan: dict):
    import copy
    for j in range(len(plan.get("setup", []))):
        p = copy.deepcopy(plan)
        del p["setup"][j]
        yield p


def _phase(plan, scratch, seed, start, store, faults=None) -> Phase:
    return Phase(plan, scratch, plan["backend"], seed, core.Policy(), faults=faults, start=start, store=store)


def _run_op(plan, scratch, seed, snap, faults):
    if snap is not None:
        store = snap.restore()
    else:
        store = None            # creation under test: storage starts absent every time
        common.fresh_scratch(scratch)
    start = (snap.now if snap is not None else 0.0) + 1.0
    ph = _phase(plan, scratch, seed, start, store, faults)
    w = ph.world
    name = plan["op"]
    if name.startswith("create"):
        ws = name == "create"
        ph.actor("px", "ut", [{"kind": "open"}], opener=lambda: w.open_table(create=True, with_schema=ws))
    else:
        ph.actor("px", "ut", [op_under_test(name)])
    ph.run()
    return ph


def execute(plan: dict, scratch: str, replay: Optional[dict] = None) -> dict:
    common.fresh_scratch(scratch)
    seed = plan.get("run_seed", 0)
    name = plan["op"]
    cfg = f"{plan['backend']}/{name}"
    snap = None
    pre = None
    pre_key = None
    reader = ir.Reader()
    if not name.startswith("create"):
        ph0 = common.run_setup(scratch, plan["backend"], seed, list(plan.get("setup", [])))
        snap = common.Snapshot(ph0)
        pre = ph0.world.state()
        pre_key = common.state_key(pre)
    # crash-free reference execution
    ref = _run_op(plan, scratch, seed, snap, None)
    if ref.sim.outcome != "ok" or ref.sim.harness_errors:
        raise core.HarnessError(f"reference run failed: {ref.sim.outcome} {ref.sim.harness_errors}")
    rrec = ref.world.history[-1]
    if rrec["outcome"] != "ok":
        raise core.HarnessError(f"reference op failed: {rrec.get('exc')} {rrec.get('msg')}")
    n_seams = ref.sim.procs["px"].seam_count
    post = ref.world.state()
    post_key = common.state_key(post)
    ref_flips = len(ref.world.flips)
    pts = plan.get("crash_points")
    if pts is None:
        allk = list(range(1, n_seams + 1))
        if plan.get("sample_k"):
            r = random.Random(plan.get("k_seed", 0))
            r.shuffle(allk)
            pts = sorted(allk[:plan["sample_k"]])
        else:
            pts = allk
    results = []
    for k in pts:
        results.append(_one_crash(plan, scratch, seed, snap, k, n_seams, pre, pre_key, post_key, post, cfg))
    res = common.merge_results(results, plan, cfg)
    common.shutil.rmtree(scratch, ignore_errors=True)
    return res


def _one_crash(plan, scratch, seed, snap, k, n_seams, pre, pre_key, post_key, post, cfg) -> dict:
    name = plan["op"]
    is_create = name.startswith("create")
    ph = _run_op(plan, scratch, seed, snap, [{"kind": "crash", "proc": "px", "pstep": k}])
    w = ph.world
    sim = ph.sim
    V: List[dict] = []

    def bad(clause, msg):
        V.append({"clause": clause, "msg": f"[{cfg} crash before seam call {k}/{n_seams}] {msg}",
                  "sig": f"{clause}|{plan['backend']}|{name}", "plan_patch": {"crash_points": [k]}})

    flipped = len(w.flips) > 0
    sim.probe("crash_after_flip" if flipped else "crash_before_flip")
    crashed = sim.fired.get("crash", 0) > 0
    if sim.outcome not in ("ok",):
        r = common.assemble(ph, V, False, cfg)
        return r
    view = w.view()
    metas_at_crash = w.reader.metadata_files(view)
    v0_uuid = None
    if is_create:
        for (ver, fn) in metas_at_crash:
            try:
                v0_uuid = w.reader.metadata_raw(view, fn)["table_uuid"]
            except ir.IRError:
                pass
    before_listing = common.listing(w)

    # ---- recovery in a fresh process
    gap = 1.0 if plan["backend"] == "local" else 75.0
    ph2 = Phase(plan, scratch, plan["backend"], seed ^ 0xABCD, core.Policy(), start=sim.now + gap,
                store=w.store)
    w2 = ph2.world
    obs = {}

    def recover():
        import datashard
        a = ph2.sim.me()
        try:
            if is_create:
                t = w2.open_table(create=True, with_schema=(name == "create"))
            else:
                t = datashard.load_table(w2.table_path)
        except BaseException as e:
            if isinstance(e, (core.SimDead, core.SimKilled)):
                raise
            obs["open_exc"] = repr(e)[:300]
            return
        try:
            obs["st"] = w2.state()
            if obs["st"] is None and is_create:
                # pointer-less table with a published v0: recognised as existing (C10/C18)
                mf = w2.reader.metadata_files(w2.view())
                if mf:
                    obs["st"] = w2.reader.state_of(w2.view(), mf[-1][1], mf[-1][0])
        except ir.IRError as e:
            obs["ir_exc"] = str(e)
            return
        try:
            rows = t.scan()
            obs["scan"] = tuple(sorted((ir.row_key(r) for r in rows), key=repr))
        except BaseException as e:
            if isinstance(e, (core.SimDead, core.SimKilled)):
                raise
            obs["scan_exc"] = repr(e)[:300]
        # every retained snapshot must be resolvable through the library too
        # follow-up append: bounded liveness, 3 attempts
        ok = False
        last = None
        sch = world.schema() if (is_create and name == "create_noschema") else None
        for attempt in range(3):
            try:
                t.append_records(world.mkrows("fu", 2), schema=sch)
                ok = True
                break
            except BaseException as e:
                if isinstance(e, (core.SimDead, core.SimKilled)):
                    raise
                last = repr(e)[:300]
                ph2.sim.sleep(31.0)
        obs["append_ok"] = ok
        obs["append_exc"] = last
        try:
            obs["st2"] = w2.state()
        except ir.IRError as e:
            obs["ir2_exc"] = str(e)
        # age everything past grace and marker abandonment, then collect
        ph2.sim.sleep(25 * 3600.0)
        obs["list_before_gc"] = common.listing(w2)
        try:
            obs["gc"] = t.garbage_collect(grace_period_ms=3600000)
        except BaseException as e:
            if isinstance(e, (core.SimDead, core.SimKilled)):
                raise
            obs["gc_exc"] = repr(e)[:300]
        obs["list_after_gc"] = common.listing(w2)
        try:
            obs["st3"] = w2.state()
        except ir.IRError as e:
            obs["ir3_exc"] = str(e)

    ph2.sim.spawn(ph2.sim.proc("rec"), "rec", recover)
    ph2.run()
    if ph2.sim.outcome != "ok" or ph2.sim.harness_errors:
        r = common.assemble(ph2, V, False, cfg)
        return r

    if "open_exc" in obs:
        if is_create or pre is not None:
            bad("C.reopen_failed", f"reopening after the crash raised {obs['open_exc']}")
    elif "ir_exc" in obs:
        bad("C.unreadable_after_crash", f"table not fully readable after reopen: {obs['ir_exc']}")
    else:
        st = obs["st"]
        key = common.state_key(st)
        if is_create:
            if st is None:
                bad("C.create_no_table", "create_table after an interrupted creation left no readable pointer")
            else:
                if st.snaps:
                    bad("C.create_state", "freshly created table has snapshots")
                if v0_uuid is not None and st.uuid != v0_uuid:
                    bad("C.create_reinitialised", f"v0 metadata with uuid {v0_uuid} was published before the crash "
                                                  f"but the table now has uuid {st.uuid}")
                sim.probe("recovered_post" if v0_uuid else "recovered_pre")
        else:
            if key == pre_key and key == post_key:
                sim.probe("recovered_same")
            elif key == pre_key:
                sim.probe("recovered_pre")
                if flipped:
                    bad("C.post_lost", "the pointer had advanced before the crash but the reopened table is in the pre-state")
            elif key == post_key:
                sim.probe("recovered_post")
                if not flipped:
                    bad("C.post_without_flip", "reopened table is in the post-state although the pointer never advanced")
            else:
                bad("C.neither_pre_nor_post", f"reopened table is neither the pre- nor the post-state "
                                              f"(snapshots {[s.id for s in st.snaps]} current {st.current_id})")
        if "scan_exc" in obs:
            bad("C.scan_failed", f"scan after reopen raised {obs['scan_exc']}")
        elif st is not None and obs.get("scan") != st.current_rows():
            bad("C.scan_mismatch", f"library scan ({len(obs.get('scan', ()))} rows) != independent reader "
                                   f"({len(st.current_rows())} rows)")
        if not obs.get("append_ok"):
            bad("C.not_writable", f"follow-up append failed 3 times after the crash: {obs.get('append_exc')}")
        elif "ir2_exc" in obs:
            bad("C.unreadable_after_append", obs["ir2_exc"])
        else:
            st2 = obs["st2"]
            fu = [ir.row_key(r) for r in world.mkrows("fu", 2)]
            rows2 = st2.current_rows() if st2 else ()
            if not all(r in rows2 for r in fu):
                bad("C.followup_invisible", "follow-up append acknowledged but not visible")
            if st is not None and st2 is not None:
                want = tuple(sorted(list(st.current_rows()) + fu, key=repr))
                if rows2 != want:
                    bad("C.followup_changed_rows", "rows after the follow-up append are not the reopened rows plus the appended ones")
        if "gc_exc" in obs:
            bad("C.gc_failed", f"garbage collection after recovery raised {obs['gc_exc']}")
        elif "ir3_exc" in obs:
            bad("C.gc_damaged", f"after garbage collection a retained snapshot is unreadable: {obs['ir3_exc']}")
        elif "st3" in obs and obs.get("st2") is not None:
            st3 = obs["st3"]
            deleted = obs["list_before_gc"] - obs["list_after_gc"]
            reach = st3.reachable()
            live = reach["data"] | reach["manifests"] | reach["lists"]
            hit = deleted & live
            if hit:
                bad("C.gc_deleted_live", f"GC after recovery deleted reachable files {sorted(hit)[:3]}")
            if common.state_key(st3) != common.state_key(obs["st2"]):
                bad("C.gc_changed_state", "GC changed the table state")
            if deleted:
                sim.probe("gc_deleted_leftover", len(deleted))
    nontrivial = crashed and 1 < k < n_seams
    sample = None
    if V or k == 1:
        sample = {"config": cfg, "setup": [o["kind"] for o in plan.get("setup", [])], "crash_before_call": k,
                  "of": n_seams, "flipped_before_crash": flipped,
                  "last_events": [f"{a}:{op}:{t}:{o}" for (_g, _t, a, op, t, o) in sim.log[-6:]]}
    r = common.assemble(ph, V, nontrivial, cfg, sample)
    r["probes"] = dict(sim.probes)
    for kx, vx in ph2.sim.probes.items():
        r["probes"][kx] = r["probes"].get(kx, 0) + vx
    r["steps"] += ph2.sim.gstep
    r["vtime"] += ph2.sim.now - ph2.sim.start
    return r
