"""C05 — garbage collection never deletes anything reachable or in flight."""
from __future__ import annotations

import os
import random
from typing import List, Optional

from dsim import core, ir, world
from . import common
from .common import Phase

PROP = "C05"
LEVEL = "exploration"
BUDGET = {"quick": 60, "thorough": 900}
MIN_BUDGET = {"quick": 25, "thorough": 120}
RULE = ("seeded single-writer histories (length 4-14) over {append, two-append txn, delete file, expire, delete_snapshot, "
        "retention property, clock advance 0-3 h, open transaction (append_data done - or a pre-built file 0-2 h old handed to append_files - commit/rollback later), committed pre-built files referenced as /data/f, data/f, data//f, data/./f, data/sub/../f, ./data/f, "
        "GC(grace in {0, 1 h, 1e9 ms})} x table-location spelling {absolute, relative to cwd, ./x, trailing slash, via "
        "symlinked parent, via symlinked root, relative names d / da / data / m / meta / metadata / metadata2 / "
        "data/x} on local, and S3 prefixes with the same name classes incl. the absolute-looking '/data', '/metadata', '/d' (with and without an environment prefix). "
        "Oracle per collection: files removed (from the simulator's event log) are disjoint from reachable(all "
        "retained snapshots) and from files + markers of open transactions; every retained snapshot is readable "
        "afterwards; no unreachable, unprotected data/manifest file older than grace remains; the collection does "
        "not raise. Distinct = SHA-1 of write/pointer events; non-trivial = a collection ran with >= 1 orphan older "
        "than its grace period or >= 1 open transaction.")
ASSUMPTIONS = common.BASE_ASSUMPTIONS + [
    "relative table locations are resolved against a per-run working directory (the worker chdir()s into its scratch)",
    "a marker younger than 24 h (the collector's abandonment window) protects the file it names",
]
COMPONENTS = common.COMPONENTS
EXPECT_PROBES = ["gc_ran", "gc_deleted_orphan", "gc_with_open_tx", "gc_old_orphans_present", "gc_young_orphans_kept"]

LOCAL_SPELLINGS = ["abs", "rel", "dot", "slash", "relslash", "symparent", "symroot",
                   "name:d", "name:da", "name:data", "name:m", "name:meta", "name:metadata", "name:metadata2",
                   "name:data/x", "name:t"]
S3_SPELLINGS = ["name:tbl", "name:d", "name:data", "name:m", "name:metadata", "name:metadata2", "name:data/x",
                "name:a/b/", "name:/lead", "name:/data", "name:/metadata", "name:/data/", "name:/d"]


FILE_SPELLINGS = ["canon", "canon", "noslash", "dslash", "dot", "dotdot", "dotslash"]


def gen(rng: random.Random, tier: str, idx: int) -> dict:
    backend = "local" if rng.random() < 0.7 else "s3"
    sp = rng.choice(LOCAL_SPELLINGS if backend == "local" else S3_SPELLINGS)
    ops: List[dict] = []
    n = rng.randint(4, 14 if tier == "quick" else 24)
    open_ids: List[int] = []
    nid = 0
    for j in range(n):
        tag = f"h{j}"
        r = rng.random()
        if r < 0.05:
            # a committed pre-built file, referenced under one of the path spellings append_files() accepts
            ops.append({"kind": "files_append", "tag": tag, "n": 1, "age": rng.choice([0.0, 4000.0]),
                        "spell": rng.choice(FILE_SPELLINGS if backend == "local" else FILE_SPELLINGS[:3])})
        elif r < 0.25:
            ops.append({"kind": "append", "tag": tag, "n": rng.randint(1, 2)})
        elif r < 0.32:
            ops.append({"kind": "multi", "tag": tag, "n": 1})
        elif r < 0.44:
            ops.append({"kind": "delete_file", "tag": tag, "k": rng.randint(0, 4), "with_append": rng.random() < 0.3})
        elif r < 0.52:
            ops.append({"kind": "expire", "tag": tag, "k": rng.randint(0, 6), "delta": rng.choice([0, 1]),
                        "with_append": rng.random() < 0.3})
        elif r < 0.58:
            ops.append({"kind": "delete_snapshot", "k": rng.randint(0, 6)})
        elif r < 0.70:
            ops.append({"kind": "sleep", "dt": rng.choice([0.0, 10.0, 1800.0, 3700.0, 10800.0, 90000.0])})
        elif r < 0.78 and len(open_ids) < 2:
            if rng.random() < 0.5:
                # the transaction registers a PRE-BUILT file (append_files), possibly older than any grace period
                part = rng.random() < 0.7      # partitioned layout: the same basename in every directory
                ops.append({"kind": "tx_open", "id": nid, "tag": tag, "n": 1, "prebuilt": True,
                            **({"dir": f"p={nid}", "name": "pre_part0"} if part else {}),   # one directory per file: a path is never re-used
                            "age": rng.choice([0.0, 4000.0, 8000.0]),
                            "spell": rng.choice(FILE_SPELLINGS if backend == "local" else FILE_SPELLINGS[:3])})
            else:
                ops.append({"kind": "tx_open", "id": nid, "tag": tag, "n": 1, "second": rng.random() < 0.3})
            open_ids.append(nid)
            nid += 1
        elif r < 0.84 and open_ids:
            i = open_ids.pop(rng.randrange(len(open_ids)))
            ops.append({"kind": "tx_close", "id": i, "how": rng.choice(["commit", "commit", "rollback"])})
        else:
            ops.append({"kind": "gc", "grace_ms": rng.choice([0, 0, 3600000, 10 ** 9])})
    ops.append({"kind": "sleep", "dt": rng.choice([1.0, 4000.0])})
    ops.append({"kind": "gc", "grace_ms": rng.choice([0, 3600000])})
    plan = {"backend": backend, "spelling": sp, "ops": ops,
            "env_prefix": rng.choice(["", "", "pre", "pre/fix/"]) if backend != "local" else ""}
    if rng.random() < 0.15:
        plan["retention"] = rng.randint(1, 3)
    return plan


def shrink(plan: dict):
    import copy
    for j in range(len(plan["ops"])):
        p = copy.deepcopy(plan)
        del p["ops"][j]
        if p["ops"]:
            yield p
    if plan.get("retention"):
        p = copy.deepcopy(plan)
        p.pop("retention")
        yield p


def place(spelling: str, scratch: str, backend: str):
    """-> (location under scratch of the real directory, table_path handed to datashard, cwd)."""
    cwd = os.path.join(scratch, "cwd")
    os.makedirs(cwd, exist_ok=True)
    if backend != "local":
        name = spelling.split(":", 1)[1]
        return name, name, cwd
    if spelling == "abs":
        return "cwd/tbl", os.path.join(cwd, "tbl"), cwd
    if spelling == "rel":
        return "cwd/tbl", "tbl", cwd
    if spelling == "dot":
        return "cwd/tbl", "./tbl", cwd
    if spelling == "slash":
        return "cwd/tbl", os.path.join(cwd, "tbl") + "/", cwd
    if spelling == "relslash":
        return "cwd/tbl", "tbl/", cwd
    if spelling == "symparent":
        os.makedirs(os.path.join(cwd, "real"), exist_ok=True)
        os.symlink(os.path.join(cwd, "real"), os.path.join(cwd, "lnk"))
        return "cwd/real/tbl", os.path.join(cwd, "lnk", "tbl"), cwd
    if spelling == "symroot":
        os.makedirs(os.path.join(cwd, "realtbl"), exist_ok=True)
        os.symlink(os.path.join(cwd, "realtbl"), os.path.join(cwd, "tbl"))
        return "cwd/realtbl", os.path.join(cwd, "tbl"), cwd
    name = spelling.split(":", 1)[1]
    return "cwd/" + name, name, cwd


def check_gc(w: world.World, sim, rec: dict, open_files: set, V: List[dict], cfg: str, spelling_class: str):
    """Oracle for one sequential collection (no concurrent writers)."""
    res = rec.get("resolved", {})
    deleted = set(common.gc_deleted(sim, rec["actor"], res.get("gc_start_step", 0), res.get("gc_end_step", 1 << 60)))
    pre = rec.get("_pre")
    sim.probe("gc_ran")

    def bad(clause, msg):
        V.append({"clause": clause, "msg": f"[{cfg}] GC(grace={res.get('gc_grace_ms')}ms) {msg}",
                  "sig": f"{clause}|{w.backend}|{spelling_class}"})

    if pre is None:
        return
    reach = pre["reach"]
    live = reach["data"] | reach["manifests"] | reach["lists"]
    hit = deleted & live
    if hit:
        bad("G.deleted_reachable", f"deleted {len(hit)} file(s) referenced by retained snapshots, e.g. {sorted(hit)[:2]}")
    # a transaction is "live" for the collector while its marker is younger than the 24 h
    # abandonment window (documented design limit; longer-open transactions are out of envelope)
    # (decided by the transaction's AGE, not by whether a marker happens to protect it: a marker that was never
    # written, or was overwritten / removed by another transaction, must not read as "abandoned")
    stale_open = set(rec.get("_stale_open", ()))
    if stale_open:
        sim.probe("gc_open_tx_past_abandonment")
    hit2 = deleted & ((open_files - stale_open) | pre["protected"] | pre["fresh_markers"])
    if hit2:
        bad("G.deleted_inflight", f"deleted files/markers of a live transaction: {sorted(hit2)[:2]}")
    foreign = [d for d in deleted if not (d.startswith(common.GC_DIRS) or d.startswith("metadata/inflight/"))]
    if foreign:
        bad("G.deleted_foreign", f"deleted files outside data/, manifests/ and inflight/: {foreign[:2]}")
    if rec["outcome"] == "raise":
        bad("G.gc_raised", f"raised {rec.get('exc')}: {(rec.get('msg') or '')[:160]} on a healthy table")
    # every retained snapshot still readable
    try:
        w.state(deep=True, rows=True)
    except ir.IRError as e:
        bad("G.snapshot_unreadable", f"a retained snapshot is unreadable after the collection: {e}")
    # non-vacuity as a checked clause: old unprotected orphans are gone
    grace_s = res.get("gc_grace_ms", 0) / 1000.0
    after = set(w.view().list(""))
    must = [f for f, mt in pre["orphans"].items()
            if pre["now"] - mt > grace_s + 2.0 and f not in pre["protected"] and f not in open_files]
    young = [f for f, mt in pre["orphans"].items() if pre["now"] - mt < grace_s - 2.0]
    if must:
        sim.probe("gc_old_orphans_present")
    if rec["outcome"] == "ok":
        left = [f for f in must if f in after]
        if left:
            bad("G.orphan_not_removed", f"{len(left)} unreferenced file(s) older than the grace period remain, e.g. {left[:2]}")
        if deleted - live:
            sim.probe("gc_deleted_orphan", len(deleted - live))
        if young and all(f in after for f in young):
            sim.probe("gc_young_orphans_kept")
    if open_files:
        sim.probe("gc_with_open_tx")


def snapshot_pre_gc(w: world.World, sim, open_files: set) -> Optional[dict]:
    try:
        st = w.state(deep=True, rows=False)
    except ir.IRError:
        return None
    if st is None:
        return None
    reach = st.reachable()
    live = reach["data"] | reach["manifests"] | reach["lists"]
    view = w.view()
    now = sim.true_time()
    prot, fresh = common.gc_protected_before(w, now)
    orphans = {}
    for f in view.list(""):
        if f.startswith(common.GC_DIRS) and f not in live:
            orphans[f] = view.mtime(f)
    return {"reach": reach, "protected": prot, "fresh_markers": fresh, "orphans": orphans, "now": now}


def execute(plan: dict, scratch: str, replay: Optional[dict] = None) -> dict:
    common.fresh_scratch(scratch)
    seed = plan.get("run_seed", 0)
    backend = plan["backend"]
    sp = plan["spelling"]
    loc, tpath, cwd = place(sp, scratch, backend)
    old_cwd = os.getcwd()
    os.chdir(cwd)
    try:
        ph = Phase(plan, scratch, backend, seed, core.Policy(), location=loc, table_path=tpath,
                   s3_env_prefix=plan.get("env_prefix", ""), max_steps=60000)
        w, sim = ph.world, ph.sim
        V: List[dict] = []
        cfg = f"{backend}/{sp}"
        ops = list(plan["ops"])
        if plan.get("retention"):
            ops.insert(0, {"kind": "set_prop", "key": "datashard.snapshot.retention-count",
                           "value": str(plan["retention"])})
        ctx = world.Ctx(w, "h", lambda: w.open_table(create=True))
        nontrivial = [False]

        def body():
            a = sim.me()
            open_files: dict = {}
            opened_at: dict = {}
            abandoned: set = set()
            for i, op in enumerate([{"kind": "open"}] + ops):
                if op["kind"] == "gc":
                    of = set().union(*open_files.values()) if open_files else set()
                    pre = snapshot_pre_gc(w, sim, of)
                world.run_ops(ctx, [op])
                rec = w.history[-1]
                rec["i"] = i
                if op["kind"] == "tx_open" and rec["outcome"] == "ok":
                    open_files[op["id"]] = set(rec["resolved"].get("tx_files", []))
                    opened_at[op["id"]] = sim.true_time()
                if op["kind"] == "tx_close":
                    open_files.pop(op["id"], None)
                if op["kind"] == "gc":
                    rec["_pre"] = pre
                    of = set().union(*open_files.values()) if open_files else set()
                    old_tx = {tid for tid in open_files if pre and pre["now"] - opened_at[tid] > 86400.0 - 5.0}
                    rec["_stale_open"] = set().union(*(open_files[t_] for t_ in old_tx)) if old_tx else set()
                    check_gc(w, sim, rec, of, V, cfg, sp)
                    abandoned |= old_tx
                    if pre and (pre["orphans"] or of):
                        nontrivial[0] = True
                elif rec["outcome"] == "raise" and op["kind"] == "tx_close" and op["id"] in abandoned:
                    sim.probe("abandoned_tx_commit_rejected")
                elif rec["outcome"] == "raise" and op["kind"] not in ("delete_snapshot",):
                    V.append({"clause": "G.history_op_failed",
                              "msg": f"[{cfg}] fault-free {op['kind']} raised {rec.get('exc')}: {(rec.get('msg') or '')[:200]}",
                              "sig": f"G.history_op_failed|{op['kind']}|{rec.get('exc')}|{sp}"})
        sim.spawn(sim.proc("p0"), "h", body)
        ph.run()
        for h in w.history:
            h.pop("_pre", None)
            h.pop("_stale_open", None)
        res = common.assemble(ph, V if sim.outcome == "ok" else [], nontrivial[0], cfg,
                              {"config": cfg, "ops": [o["kind"] for o in ops],
                               "outcomes": [(h["op"]["kind"], h["outcome"]) for h in w.history]})
    finally:
        os.chdir(old_cwd)
    w.cleanup()
    return res
