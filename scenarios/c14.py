"""C14 — reads fail closed: damaged or missing files raise, never yield partial rows."""
from __future__ import annotations

import io
import json
import os
import random
from typing import Any, Dict, List, Optional, Tuple

from dsim import core, ir, world
from dsim.s3fake import Obj
from . import common
from .common import Phase

PROP = "C14"
LEVEL = "fault_enumeration"
BUDGET = {"quick": 60, "thorough": 900}
MIN_BUDGET = {"quick": 20, "thorough": 60}
RULE = ("tables with 1-3 snapshots and 1-4 data files in the current one (local and CAS-S3); for ONE file reachable from "
        "the current snapshot (current metadata file, manifest list, each manifest, each data file) and ONE damage "
        "(delete; truncate to 0 / 3 / 10 / 25% / 50% / start of footer / len-8 / len-1 bytes; whole-file noise; replaced by the JSON documents {} / {\"format\":...} which are no file of that kind; single "
        "byte flips at 7 positions and inside the words 'parquet' / 'data/' / 'manifest_' of an entry; content swapped with a sibling of the same kind) every read API and option is "
        "run through a fresh handle: scan, scan(parallel=2), scan_batches(1|3|1000), iter_records, row_count, column "
        "projection, filter, verify_checksums True / False / env-off - once through fresh handles and once through ONE "
        "long-lived handle that had read the table before the damage. Separately, an exception is injected at each "
        "storage read call of each API (S3: transient burst within the 6-attempt budget may be masked - then the whole answer - beyond it and "
        "permanent codes must raise; local: OSError must raise). quick samples (file, damage) pairs, thorough sweeps "
        "all. One evaluation = one (table, file, damage, API). Oracle: exception, or exactly the undamaged answer and "
        "only when the API does not read the damaged bytes or the damaged file still parses for the independent "
        "reader (outside the statement); with verification on any byte change of a data file must raise; an empty or "
        "partial result is never acceptable. Non-trivial = the damaged file is unparseable (or a data file with "
        "verification on) and the API reads it.")
ASSUMPTIONS = common.BASE_ASSUMPTIONS + [
    "damage that the independent reader still parses (e.g. an Avro file cut exactly after its header, a flipped byte inside "
    "a string) is outside the statement and only counted",
    "pandas APIs cannot run in this sandbox (pandas not installed)",
]
COMPONENTS = common.COMPONENTS
EXPECT_PROBES = ["raised_closed", "same_answer_allowed", "parseable_damage_skipped", "transient_masked", "transient_raised"]

APIS: List[Dict[str, Any]] = [
    {"api": "scan"}, {"api": "scan_parallel", "workers": 2}, {"api": "scan_batches", "batch": 1},
    {"api": "scan_batches", "batch": 3}, {"api": "scan_batches", "batch": 1000}, {"api": "iter_records"},
    {"api": "row_count"}, {"api": "scan", "columns": ["tag"]}, {"api": "scan", "filter": {"v": (">=", 0)}},
    {"api": "scan", "verify": False}, {"api": "scan_batches", "batch": 2, "verify": False},
    {"api": "scan_parallel", "workers": 2, "verify": False}, {"api": "scan", "verify": True},
    {"api": "iter_records", "verify": False}, {"api": "scan", "env_verify_off": True},
]
DAMAGES = ["delete", "trunc0", "trunc3", "trunc10", "trunc25", "trunc50", "truncfoot", "trunc_m8", "trunc_m1", "noise",
           "flip0", "flip5", "flip25", "flip50", "flip75", "flip_m5", "flip_m1", "swap", "flipword:parquet",
           "flipword:parquet", "flipword:data/", "flipword:manifest_", "json_empty", "json_other"]


def gen(rng: random.Random, tier: str, idx: int) -> dict:
    backend = "local" if rng.random() < 0.65 else "s3"
    setup: List[dict] = []
    for k in range(rng.randint(1, 3)):
        r = rng.random()
        if r < 0.7:
            setup.append({"kind": "append", "tag": f"s{k}", "n": rng.randint(1, 4)})
        else:
            setup.append({"kind": "multi", "tag": f"s{k}", "n": rng.randint(1, 2)})
    if rng.random() < 0.3:
        setup.append({"kind": "delete_file", "tag": "sd", "k": 0, "with_append": True})
    if rng.random() < 0.3:
        # a PRE-BUILT file handed over with append_files (the caller supplied no checksum)
        setup.insert(rng.randrange(len(setup) + 1), {"kind": "files_append", "tag": "pb", "n": rng.randint(1, 3), "spell": "canon"})
    mode = "damage" if idx % 4 != 3 else "transient"
    return {"backend": backend, "setup": setup, "mode": mode, "cases": None, "sample": 10 if tier == "quick" else None,
            "k_seed": rng.randrange(1 << 30),
            # a writer that died between its metadata write and the pointer flip: a never-committed v(N+1) file with one
            # more row exists next to the committed versions (legal state, C03) while the reads are damaged / failing
            "dead_writer": mode == "transient" and rng.random() < 0.5,
            # one manifest entry as an older writer left it: no checksum recorded (the other files keep theirs)
            "legacy_entry": mode == "damage" and rng.random() < 0.25}


def shrink(plan: dict):
    import copy
    for j in range(len(plan["setup"])):
        if len(plan["setup"]) > 1:
            p = copy.deepcopy(plan)
            del p["setup"][j]
            yield p


def _files(st: ir.TableState) -> List[Tuple[str, str]]:
    cur = st.current()
    out = [("META", f"metadata/{st.pointer}"), ("MLIST", cur.mlist)]
    out += [("MANIFEST", m) for m in sorted(set(cur.manifests))]
    out += [("DATA", d) for d in sorted(cur.files)]
    return out


def _damaged(data: bytes, how: str, sibling: Optional[bytes]) -> Optional[bytes]:
    n = len(data)
    if how == "delete":
        return None
    if how.startswith("trunc"):
        k = {"trunc0": 0, "trunc3": 3, "trunc10": 10, "trunc25": n // 4, "trunc50": n // 2, "trunc_m8": n - 8,
             "trunc_m1": n - 1}.get(how)
        if how == "truncfoot":
            if data[-4:] == b"PAR1" and n > 12:
                fl = int.from_bytes(data[-8:-4], "little")
                k = max(0, n - 8 - fl)
            else:
                k = max(0, n - 17)
        return data[: max(0, min(n, k))]
    if how == "noise":
        return bytes((i * 73 + 29) % 256 for i in range(max(16, n)))
    if how == "json_empty":
        return b"{}"          # well-formed JSON that is not a file of this kind (no entries key, no snapshots)
    if how == "json_other":
        return b'{"format": "unknown", "entries": 3}'
    if how.startswith("flipword:"):
        word = how.split(":", 1)[1].encode()
        i = data.rfind(word)
        if i < 0:
            return data
        b = bytearray(data)
        b[i + len(word) // 2] ^= 0x03
        return bytes(b)
    if how.startswith("flip"):
        pos = {"flip0": 0, "flip5": 5, "flip25": n // 4, "flip50": n // 2, "flip75": 3 * n // 4, "flip_m5": n - 5,
               "flip_m1": n - 1}[how]
        pos = max(0, min(n - 1, pos))
        b = bytearray(data)
        b[pos] ^= 0x5A
        return bytes(b)
    if how == "swap":
        return sibling
    raise ValueError(how)


def _apply(w: world.World, rel: str, new: Optional[bytes]) -> None:
    if w.backend == "local":
        p = os.path.join(w.root, rel)
        if new is None:
            os.remove(p)
        else:
            mt = os.path.getmtime(p)
            with open(p, "wb") as f:
                f.write(new)
            os.utime(p, (mt, mt))
    else:
        b = w.store.bucket(w.bucket)
        key = f"{w.prefix}/{rel}"
        if new is None:
            b.pop(key, None)
        else:
            b[key] = Obj(new, b[key].mtime, "damage")


def _parses(kind: str, new: Optional[bytes]) -> bool:
    if new is None:
        return False
    try:
        if kind == "META":
            d = json.loads(new.decode("utf-8"))
            return isinstance(d, dict) and "snapshots" in d
        if kind in ("MLIST", "MANIFEST"):
            import fastavro
            recs = list(fastavro.reader(io.BytesIO(new)))
            # "parses" = the container decodes AND every entry is a valid entry of the format (an entry with an
            # unknown file format / non-string path is not a manifest entry any reader can honour)
            for rec in recs:
                if kind == "MANIFEST":
                    df = rec["data_file"]
                    if df["file_format"] not in ("parquet", "avro", "orc") or not isinstance(df["file_path"], str) \
                            or not isinstance(df["record_count"], int) or rec["status"] not in (0, 1, 2):
                        return False
                else:
                    if not isinstance(rec["manifest_path"], str) or rec["content"] not in (0, 1):
                        return False
            return True
        import pyarrow.parquet as pq
        pq.read_table(io.BytesIO(new))
        return True
    except Exception:
        return False


def _expected(rows: tuple, op: dict):
    from .c02 import _match  # noqa
    return rows


def execute(plan: dict, scratch: str, replay: Optional[dict] = None) -> dict:
    common.fresh_scratch(scratch)
    seed = plan.get("run_seed", 0)
    backend = plan["backend"]
    ph0 = common.run_setup(scratch, backend, seed, list(plan["setup"]))
    if plan.get("dead_writer"):
        ph1 = Phase(plan, scratch, backend, seed ^ 1, core.Policy(), start=ph0.sim.now + 1.0, store=ph0.world.store,
                    faults=[{"kind": "crash", "proc": "pdead", "op": "replace" if backend == "local" else "put",
                             "cls": "HINT", "nth": 1}])
        ph1.actor("pdead", "dead", [{"kind": "append", "tag": "dw", "n": 1}])
        ph1.run()
        if len(ph1.world.flips):
            raise core.HarnessError("dead writer flipped the pointer")
        ph1.sim.probe("crash_orphan_present")
        ph0 = ph1
    if plan.get("legacy_entry"):
        plan["_stripped"] = _strip_first_checksum(ph0.world)
        ph0.sim.probe("legacy_checksumless_entry")
    snap = common.Snapshot(ph0)
    st = ph0.world.state()
    files = _files(st)
    rows = st.current_rows()
    count = sum(f.record_count for f in st.current().files.values())
    r = random.Random(plan.get("k_seed", 0))
    cases = plan.get("cases")
    if cases is None:
        if plan["mode"] == "damage":
            cases = [["damage", kind, rel, how, wm] for (kind, rel) in files for how in DAMAGES for wm in (0, 1)]
        else:
            excs = ([["EIO", 1]] if backend == "local" else [["InternalError", 2], ["InternalError", 7],
                                                              ["AccessDenied", 1], ["SlowDown", 4]])
            cases = [["transient", ai, k, e, b] for ai in range(len(APIS)) for k in (1, 2, 3, 4, 6, 8, 11) for (e, b) in excs]
        r.shuffle(cases)
        if plan.get("sample"):
            cases = cases[:plan["sample"]]
    results = []
    for case in cases:
        if case[0] == "damage":
            results.append(_damage_case(plan, scratch, seed, snap, st, rows, count, case))
        else:
            results.append(_transient_case(plan, scratch, seed, snap, rows, count, case))
    res = common.merge_results(results, plan, f"{backend}/{plan['mode']}")
    common.shutil.rmtree(scratch, ignore_errors=True)
    return res


def _strip_first_checksum(w: world.World) -> Optional[str]:
    """Turn the first entry of the current snapshot's first manifest into what an older writer left behind: a manifest
    entry WITHOUT a recorded checksum (the field is nullable).  Harness-level edit of the stored table."""
    import fastavro
    st = w.state(deep=True, rows=False)
    mp = st.current().manifests[0]
    view = w.view()
    rd = fastavro.reader(io.BytesIO(view.read(mp)))
    schema = rd.writer_schema
    recs = list(rd)
    if not recs:
        return None
    recs[0]["data_file"]["checksum"] = None
    buf = io.BytesIO()
    fastavro.writer(buf, schema, recs)
    _apply(w, mp, buf.getvalue())
    return w.view().canon(recs[0]["data_file"]["file_path"]) if hasattr(w.view(), "canon") else recs[0]["data_file"]["file_path"].lstrip("/")


def _run_reads(ph: Phase, apis: List[dict], warm_then=None) -> List[dict]:
    """warm_then: callable applied AFTER a long-lived handle has read the table once; all reads then go
    through that same handle (caches of a long-lived Table object are in play)."""
    w, sim = ph.world, ph.sim
    out: List[dict] = []

    def body():
        import datashard
        shared = None
        if warm_then is not None:
            shared = datashard.load_table(w.table_path)
            shared.scan()
            list(shared.scan_batches(batch_size=2))
            shared.row_count()
            warm_then()
        for op in apis:
            rec: Dict[str, Any] = {"op": op}
            out.append(rec)
            old_env = os.environ.get("DATASHARD_VERIFY_CHECKSUMS")
            try:
                if op.get("env_verify_off"):
                    os.environ["DATASHARD_VERIFY_CHECKSUMS"] = "false"
                t = shared if shared is not None else datashard.load_table(w.table_path)
                if op["api"] == "row_count":
                    rec["count"] = t.row_count()
                else:
                    got = world.read_api(t, op["api"], op)
                    rec["rows"] = tuple(sorted((ir.row_key(x) for x in got), key=repr))
                rec["outcome"] = "ok"
            except (core.SimDead, core.SimKilled):
                raise
            except BaseException as e:
                rec["outcome"] = "raise"
                rec["exc"] = type(e).__name__
                rec["msg"] = str(e)[:160]
            finally:
                if old_env is None:
                    os.environ.pop("DATASHARD_VERIFY_CHECKSUMS", None)
                else:
                    os.environ["DATASHARD_VERIFY_CHECKSUMS"] = old_env
    sim.spawn(sim.proc("rd"), "rd", body)
    ph.run()
    return out


def _want(rows: tuple, op: dict) -> tuple:
    from .c02 import _match
    out = list(rows)
    flt = op.get("filter")
    if flt:
        keep = []
        for rr in out:
            d = dict(rr)
            ok = True
            for c, (o, val) in flt.items():
                x = d.get(c)
                ok = ok and x is not None and ((o == ">=" and x >= val) or (o == "<" and x < val))
            if ok:
                keep.append(rr)
        out = keep
    if op.get("columns"):
        out = [tuple((k, v) for (k, v) in rr if k in op["columns"]) for rr in out]
    return tuple(sorted(out, key=repr))


def _damage_case(plan, scratch, seed, snap, st, rows, count, case) -> dict:
    _m, kind, rel, how = case[:4]
    backend = plan["backend"]
    store = snap.restore()
    ph = Phase(plan, scratch, backend, seed ^ 0xD, core.Policy(), start=snap.now + 1.0, store=store, max_steps=60000)
    w, sim = ph.world, ph.sim
    view = w.view()
    data = view.read(rel)
    sibling = None
    if how == "swap":
        sibs = [p for (k2, p) in _files(st) if k2 == kind and p != rel]
        if not sibs:
            sim.outcome = "ok"
            return common.assemble(ph, [], False, f"{backend}/damage")
        sibling = view.read(sibs[0])
    new = _damaged(data, how, sibling)
    cfg = f"{backend}/{kind}/{how}"
    if new == data:
        sim.outcome = "ok"
        return common.assemble(ph, [], False, cfg)
    warm = bool(case[4]) if len(case) > 4 else False
    parses = _parses(kind, new)
    if warm:
        cfg += "/warm-handle"
        recs = _run_reads(ph, APIS, warm_then=lambda: _apply(w, rel, new))
    else:
        _apply(w, rel, new)
        recs = _run_reads(ph, APIS)
    V: List[dict] = []
    if sim.outcome != "ok":
        return common.assemble(ph, [], False, cfg)
    nontriv = False
    for rec in recs:
        op = rec["op"]
        api = op["api"]
        verify_on = not (op.get("verify") is False or op.get("env_verify_off"))
        reads_file = not (kind == "DATA" and api == "row_count")
        label = api + ("" if verify_on else "/noverify") + ("/cols" if op.get("columns") else "") + ("/filter" if op.get("filter") else "")
        # (a file whose manifest entry records no checksum - the legacy entry - cannot be verified by anybody: for it only
        #  unparseable damage must raise; every OTHER file's checksum must still be honoured)
        verifiable = rel != plan.get("_stripped")
        must_raise = reads_file and ((kind == "DATA" and verify_on and verifiable) or not parses)
        if rec["outcome"] == "raise":
            sim.probe("raised_closed")
            if must_raise:
                nontriv = True
            continue
        same = (rec.get("count") == count) if api == "row_count" else (rec.get("rows") == _want(rows, op))
        if must_raise and not verifiable and kind == "DATA" and same:
            # the legacy (checksum-less) file is only PARSED, never hashed: a read that returns exactly the undamaged answer did
            # not touch the damaged bytes (column projection, footer-only paths) - "the damage is outside what the read touches"
            sim.probe("unverifiable_file_damage_untouched")
            continue
        if not must_raise:
            if not reads_file and same:
                sim.probe("same_answer_allowed")
            else:
                sim.probe("parseable_damage_skipped")
            continue
        nontriv = True
        got_n = rec.get("count") if api == "row_count" else len(rec.get("rows") or ())
        if same:
            shape = "the undamaged answer"
        elif got_n == 0:
            shape = "an EMPTY result"
        elif api != "row_count" and set(rec.get("rows") or ()) < set(_want(rows, op)):
            shape = f"a SUBSET ({got_n} of {len(_want(rows, op))} rows)"
        else:
            shape = f"a different result ({got_n} rows/ count)"
        clause = "N.data_change_undetected" if (kind == "DATA" and verify_on and parses) else "N.unreadable_not_raised"
        V.append({"clause": clause,
                  "msg": f"[{cfg}] {label} returned {shape} although {rel} is "
                         f"{'changed (checksum verification on)' if clause == 'N.data_change_undetected' else 'missing/unparseable'}",
                  "sig": f"{clause}|{kind}|{'delete' if how == 'delete' else how.rstrip('0123456789_m')}|"
                         f"{'same' if same else ('empty' if got_n == 0 else 'other')}"
                         + ("|prebuilt" if "pre_" in rel.rsplit("/", 1)[-1] else ""),
                  "plan_patch": {"cases": [case]}})
        break
    res = common.assemble(ph, V, nontriv, cfg, {"file": rel, "damage": how, "parses": parses,
                                                "outcomes": [(r_["op"]["api"], r_["outcome"], r_.get("exc")) for r_ in recs]})
    import hashlib
    res["sched_sig"] = hashlib.sha1(repr((cfg, len(rows), [o["kind"] for o in plan["setup"]])).encode()).hexdigest()
    return res


def _transient_case(plan, scratch, seed, snap, rows, count, case) -> dict:
    _m, ai, k, exc, burst = case
    backend = plan["backend"]
    store = snap.restore()
    faults = [{"kind": "error", "proc": "rd", "pstep": k, "exc": exc, "burst": burst}]
    ph = Phase(plan, scratch, backend, seed ^ 0xE, core.Policy(), start=snap.now + 1.0, store=store, faults=faults,
               max_steps=60000)
    sim = ph.sim
    op = APIS[ai]
    recs = _run_reads(ph, [op])
    cfg = f"{backend}/transient/{exc}x{burst}"
    V: List[dict] = []
    if sim.outcome != "ok" or not recs:
        return common.assemble(ph, [], False, cfg)
    rec = recs[0]
    fired = len(sim.fired_log)
    if not fired:
        return common.assemble(ph, [], False, cfg)
    first = sim.fired_log[0]
    api = op["api"]
    permanent = exc in ("AccessDenied",)
    within = backend != "local" and not permanent and burst <= 5
    same = (rec.get("count") == count) if api == "row_count" else (rec.get("rows") == _want(rows, op))
    if rec["outcome"] == "ok":
        if same and within:
            sim.probe("transient_masked")
        elif same:
            # a failing existence probe (os.path.exists -> False) can legitimately be retried/ignored only if the answer is whole
            sim.probe("fault_tolerated_whole_answer")
        else:
            got_n = rec.get("count") if api == "row_count" else len(rec.get("rows") or ())
            V.append({"clause": "N.error_gave_partial",
                      "msg": f"[{cfg}] {api}: {exc} x{burst} at read call {k} ({first['op']} {first['cls']}) and the API returned "
                             f"{got_n} rows/count instead of raising or the whole answer",
                      "sig": f"N.error_gave_partial|{backend}|{first['op']}|{first['cls']}|{'empty' if got_n == 0 else 'other'}",
                      "plan_patch": {"cases": [case]}})
    else:
        sim.probe("transient_raised")
        if within and fired <= 5:
            # raising is what THIS property asks of a read that meets a failing file; that a burst within the retry budget
            # should have been masked is C20's statement and is decided there
            sim.probe("transient_within_budget_surfaced")
    res = common.assemble(ph, V, True, cfg, {"api": api, "fault": first, "outcome": rec["outcome"], "exc": rec.get("exc")})
    import hashlib
    res["sched_sig"] = hashlib.sha1(repr((cfg, ai, k, first["op"], first["cls"])).encode()).hexdigest()
    return res
