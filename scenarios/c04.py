"""C04 — a failed, interrupted or ambiguous commit never damages committed data."""
from __future__ import annotations

import os
import random
from typing import List, Optional

from dsim import core, ir, model, world
from . import common
from .common import Phase

PROP = "C04"
LEVEL = "fault_enumeration"
BUDGET = {"quick": 75, "thorough": 900}
MIN_BUDGET = {"quick": 20, "thorough": 60}
RULE = ("seeded history of 0-3 commits, then one commit under test (append in 3 call styles, two-append txn, "
        "delete, delete+append, expire, expire+append, delete_snapshot) on local / CAS-S3 / non-CAS S3; executed "
        "once fault-free to enumerate its storage seam calls, then re-executed from a restored copy with ONE fault "
        "at seam call k: exception before effect (local: OSError EIO/ENOSPC/EACCES; S3: transient burst beyond the "
        "6-attempt budget, permanent AccessDenied, EndpointConnectionError), exception after effect (S3 writes; incl. 412 "
        "PreconditionFailed after a conditional PUT took effect = SDK-level re-send of a landed request), "
        "disk-full, short write (os.write accepts 50 % / 90 %), KeyboardInterrupt/SystemExit before or after the effect and at "
        "sampled LINE events inside datashard code (sys.settrace; NOP lines are not injection points); in 40 % of the "
        "KeyboardInterrupt plans the interrupted process SURVIVES and must still read and write; selected doubles add a second fault "
        "class armed after the first (cleanup removes fail / lock release fails / marker deletes fail). quick "
        "samples k, thorough sweeps every k. One evaluation = one (history, op, fault mode, k). Distinct = SHA-1 of "
        "the write/lock/pointer events; non-trivial = the fault fired and the commit did not simply succeed "
        "unaffected, or fired after the pointer flip. S3 modes errafter:SlowDown* / errafter:ServiceUnavailable*: the request landed, its "
        "response was lost and every re-send is throttled until the retry budget is spent.")
ASSUMPTIONS = common.BASE_ASSUMPTIONS + [
    "os/fcntl calls fail only with OSError (os.path.exists never raises: a failing stat reads as False); S3 calls "
    "only with botocore exception types",
    "interrupt granularity: the seam boundary (before / after the effect of each storage call) and, in lineint modes, line events "
    "of datashard code except those whose instruction is a NOP (the interpreter never delivers a signal there)",
    "after SystemExit the interrupted process ends; after KeyboardInterrupt it ends or (survive plans) lives on and uses a new handle; "
    "usability is also checked from a fresh process",
    "post-state = model.apply(pre-state, op) checked by the refinement oracle (ids/timestamps from the observed file)",
]
COMPONENTS = common.COMPONENTS
EXPECT_PROBES = ["fault_after_flip", "line_interrupt_after_flip", "outcome_ambiguous", "outcome_raise_pre", "outcome_ok_post",
                 "outcome_interrupted", "rollback_ran"]

OPS = ["append", "append_with", "append_explicit", "multi", "delete_file", "delete_file_append", "expire",
       "expire_append", "delete_snapshot"]
MODES_LOCAL = ["lineint:KeyboardInterrupt", "lineint:SystemExit", "err:EIO", "err:ENOSPC", "err:EACCES", "diskfull", "shortwrite:0.5", "shortwrite:0.9", "int:KeyboardInterrupt", "int:SystemExit",
               "intafter:KeyboardInterrupt", "double:remove", "double:unflock", "double:marker"]
MODES_S3 = ["lineint:KeyboardInterrupt", "err:InternalError*7", "err:InternalError*2", "err:AccessDenied", "err:EndpointConnectionError*7",
            "errafter:InternalError", "errafter:EndpointConnectionError", "errafter:PreconditionFailed", "int:KeyboardInterrupt",
            "intafter:KeyboardInterrupt", "double:delete", "double:lockrelease"]
# the request LANDED, its response was lost, and every re-send is throttled until the retry budget is spent: drawn as a
# variant of errafter:InternalError (AFTER every other draw of the plan, so that the other modes keep their share and
# their plans)
MODES_S3_THROTTLED = ["errafter:SlowDown*", "errafter:ServiceUnavailable*"]


def gen(rng: random.Random, tier: str, idx: int) -> dict:
    r = rng.random()
    backend = "local" if r < 0.5 else ("s3" if r < 0.8 else "s3poll")
    from .c03 import op_under_test  # noqa
    name = OPS[idx % len(OPS)] if rng.random() < 0.6 else rng.choice(OPS)
    modes = MODES_LOCAL if backend == "local" else MODES_S3
    mode = rng.choice(modes)
    if mode == "errafter:PreconditionFailed" and backend != "s3":
        mode = "errafter:InternalError"      # no conditional requests without conditional writes
    setup: List[dict] = []
    for k in range(rng.randint(1, 3)):
        if rng.random() < 0.75:
            setup.append({"kind": "append", "tag": f"s{k}", "n": rng.randint(1, 2)})
        else:
            setup.append({"kind": "multi", "tag": f"s{k}", "n": 1})
    survive = mode.endswith(":KeyboardInterrupt") and rng.random() < 0.4
    plan = {"backend": backend, "op": name, "mode": mode, "setup": setup, "fault_points": None, "survive": survive,
            "sample_k": 6 if tier == "quick" else None, "k_seed": rng.randrange(1 << 30)}
    if mode == "errafter:InternalError" and backend != "local" and rng.random() < 0.4:
        plan["mode"] = rng.choice(MODES_S3_THROTTLED)
    return plan


def shrink(plan: dict):
    import copy
    for j in range(len(plan.get("setup", []))):
        if len(plan["setup"]) > 1:
            p = copy.deepcopy(plan)
            del p["setup"][j]
            yield p


def faults_for(mode: str, k: int, backend: str) -> List[dict]:
    fs = _faults_for(mode, k, backend)
    for f in fs:
        f["op_index"] = 0        # faults stop when the commit under test has returned
    return fs


def _faults_for(mode: str, k: int, backend: str) -> List[dict]:
    kind, _, arg = mode.partition(":")
    if kind == "err":
        exc, _, b = arg.partition("*")
        return [{"kind": "error", "actor": "ut", "step": k, "exc": exc, "burst": int(b or 1)}]
    if kind == "errafter":
        if arg.endswith("*"):
            return [{"kind": "error_after", "actor": "ut", "step": k, "exc": arg[:-1]},
                    {"kind": "error", "actor": "ut", "op": "put", "min_step": k + 1, "exc": arg[:-1], "burst": 7},
                    {"kind": "error", "actor": "ut", "op": "delete", "min_step": k + 1, "exc": arg[:-1], "burst": 7}]
        return [{"kind": "error_after", "actor": "ut", "step": k, "exc": arg}]
    if kind == "diskfull":
        return [{"kind": "value", "actor": "ut", "step": k}]
    if kind == "shortwrite":
        return [{"kind": "value", "actor": "ut", "step": k, "frac": float(arg)}]
    if kind == "int":
        return [{"kind": "interrupt", "actor": "ut", "step": k, "exc": arg}]
    if kind == "intafter":
        return [{"kind": "interrupt_after", "actor": "ut", "step": k, "exc": arg}]
    if kind == "double":
        first = {"kind": "error", "actor": "ut", "step": k,
                 "exc": "EIO" if backend == "local" else "AccessDenied", "burst": 1}
        if arg == "remove":
            second = {"kind": "error", "actor": "ut", "op": "remove", "min_step": k + 1, "exc": "EACCES", "burst": 99}
        elif arg == "unflock":
            second = {"kind": "error", "actor": "ut", "op": "unflock", "min_step": k + 1, "exc": "EIO", "burst": 99}
        elif arg == "marker":
            second = {"kind": "error", "actor": "ut", "cls": "MARKER", "min_step": k + 1, "exc": "EIO", "burst": 99}
        elif arg == "delete":
            second = {"kind": "error", "actor": "ut", "op": "delete", "min_step": k + 1, "exc": "AccessDenied",
                      "burst": 99}
        else:  # lockrelease
            second = {"kind": "error", "actor": "ut", "cls": "LOCK", "min_step": k + 1, "exc": "InternalError",
                      "burst": 99}
        return [first, second]
    raise ValueError(mode)


def eligible(mode: str, steps: List[tuple]) -> List[int]:
    """Seam indexes (actor-local) at which this fault mode can fire."""
    kind = mode.partition(":")[0]
    out = []
    for (_a, st, _ps, op, cls, _t) in steps:
        if kind == "diskfull":
            if op == "disk_usage":
                out.append(st)
        elif kind == "shortwrite":
            if op == "write":
                out.append(st)
        elif kind == "errafter":
            if mode.endswith(":PreconditionFailed"):
                # 412 after the effect: the SDK re-sent a CONDITIONAL put whose first attempt had landed (lost response)
                # and the retry met its own write - only conditional requests can answer 412 (pointer and lock objects
                # on the CAS backend; the caller filters the backend)
                if op == "put" and cls in ("HINT", "LOCK"):
                    out.append(st)
            elif op in ("put", "delete"):
                out.append(st)
        elif kind in ("int", "intafter"):
            out.append(st)
        else:
            if op != "disk_usage":
                out.append(st)
    return out


def _run(plan, scratch, seed, snap, faults, gap, line_fault=None):
    from .c03 import op_under_test
    store = snap.restore()
    ph = Phase(plan, scratch, plan["backend"], seed, core.Policy(), faults=faults, start=snap.now + 1.0, store=store)
    ph.sim.keep_steplog = True
    ops = [op_under_test(plan["op"]), {"kind": "sleep", "dt": gap}, {"kind": "scan", "api": "scan"},
           {"kind": "append", "tag": "fu1", "n": 1}]
    ctx = ph.actor("px", "ut", ops)
    ctx.survive_interrupt = bool(plan.get("survive"))
    if line_fault is not None:
        ctx.line_fault = line_fault
        ph.world.on_flip.append(lambda fl: line_fault.setdefault("flip_at", line_fault.get("count", 0)))
    ph.run()
    return ph


def execute(plan: dict, scratch: str, replay: Optional[dict] = None) -> dict:
    common.fresh_scratch(scratch)
    seed = plan.get("run_seed", 0)
    backend = plan["backend"]
    cfg = f"{backend}/{plan['op']}/{plan['mode'].split('*')[0]}"
    ph0 = common.run_setup(scratch, backend, seed, list(plan.get("setup", [])))
    snap = common.Snapshot(ph0)
    pre = ph0.world.state()
    gap = 1.0 if backend == "local" else 75.0
    is_line = plan["mode"].startswith("lineint")
    ref_lf = {"k": None, "op_index": 0} if is_line else None
    ref = _run(plan, scratch, seed, snap, None, gap, ref_lf)
    if ref.sim.outcome != "ok" or ref.sim.harness_errors or ref.world.history[0]["outcome"] != "ok":
        raise core.HarnessError(f"reference run failed: {ref.sim.outcome} {ref.sim.harness_errors} "
                                f"{ref.world.history[0].get('msg')}")
    op_steps = [s for s in ref.sim.steplog if s[0] == "ut" and s[1] <= _op_end_step(ref)]
    pts = plan.get("fault_points")
    if pts is None and is_line:
        n_lines = ref_lf.get("count", 0)
        fa = ref_lf.get("flip_at", n_lines)
        r = random.Random(plan.get("k_seed", 0))
        want = plan.get("sample_k") or 240
        near = list(range(max(1, fa - 30), min(n_lines, fa + 260) + 1))
        r.shuffle(near)
        far = list(range(1, n_lines + 1))
        r.shuffle(far)
        pts = sorted(set(near[: (want * 2) // 3] + far[: want - (want * 2) // 3]))
    if pts is None:
        allk = eligible(plan["mode"], op_steps)
        if plan.get("sample_k") and len(allk) > plan["sample_k"]:
            r = random.Random(plan.get("k_seed", 0))
            # bias: half of the samples near the commit point and the cleanup that follows it
            flip_step = next((s[1] for s in op_steps if s[4] == "HINT" and s[3] in ("replace", "put")), None)
            near = [k for k in allk if flip_step is not None and flip_step - 6 <= k <= flip_step + 12]
            r.shuffle(near)
            r.shuffle(allk)
            pick = near[:plan["sample_k"] // 2]
            for k in allk:
                if len(pick) >= plan["sample_k"]:
                    break
                if k not in pick:
                    pick.append(k)
            pts = sorted(pick)
        else:
            pts = allk
    results = [_one(plan, scratch, seed, snap, k, pre, cfg, gap) for k in pts]
    if not results:
        results = [common.assemble(ref, [], False, cfg)]
    res = common.merge_results(results, plan, cfg)
    common.shutil.rmtree(scratch, ignore_errors=True)
    return res


_AST_CACHE: dict = {}


def _interrupt_site(fired: dict) -> str:
    """Class of the source line a line-level interrupt was injected at: 'release_entry' = the first line of a `finally:`
    suite (or of the release helper that suite calls) - the exception arrives when the only code that could release the
    lock has not started yet; 'other' = anywhere else."""
    import ast
    import datashard
    try:
        fname, line = fired["target"].rsplit(":", 1)
        line = int(line)
        path = os.path.join(os.path.dirname(datashard.__file__), fname)
        if path not in _AST_CACHE:
            _AST_CACHE[path] = ast.parse(open(path).read())
        for node in ast.walk(_AST_CACHE[path]):
            if isinstance(node, ast.Try) and node.finalbody:
                releases = any(isinstance(c, ast.Call) and isinstance(c.func, ast.Attribute)
                               and c.func.attr in ("_release_lock_safely", "release")
                               for fb in node.finalbody for c in ast.walk(fb))
                if releases and node.finalbody[0].lineno <= line <= getattr(node.finalbody[-1], "end_lineno",
                                                                           node.finalbody[-1].lineno):
                    return "release_entry"
            if isinstance(node, ast.FunctionDef) and node.name == "_release_lock_safely":
                first_stmt = [n for n in node.body if not (isinstance(n, ast.Expr) and isinstance(getattr(n, "value", None), ast.Constant))]
                if first_stmt and node.lineno <= line <= first_stmt[0].lineno:
                    return "release_entry"
    except Exception:
        return "unknown"
    return "other"


def _op_end_step(ph) -> int:
    # actor-local step at which the op under test returned: first 'sleep' is not a seam; use the history
    rec = ph.world.history[0]
    last = 0
    for (a, st, _ps, _op, _cls, _t) in ph.sim.steplog:
        if a == "ut":
            last = st
    # steps of the follow-up ops come after rec["ret"] in global steps; map through the log
    ret = rec.get("ret", 0)
    n = 0
    for (g, _t, a, _op, _tg, _o) in ph.sim.log:
        if a == "ut" and g <= ret and _op != "sleep":
            n += 1
    return n if n else last


def _one(plan, scratch, seed, snap, k, pre, cfg, gap) -> dict:
    backend = plan["backend"]
    mode = plan["mode"]
    if mode.startswith("lineint"):
        lf = {"k": k, "op_index": 0, "exc": mode.partition(":")[2] or "KeyboardInterrupt"}
        ph = _run(plan, scratch, seed, snap, None, gap, lf)
        if lf.get("fired"):
            ph.sim.fired["line_interrupt"] += 1
            ph.sim.fired_log.append({"kind": "line_interrupt", "actor": "ut", "step": k, "pstep": k, "op": "line",
                                     "cls": f"{lf['fired'][0]}:{lf['fired'][2]}", "target": f"{lf['fired'][0]}:{lf['fired'][1]}"})
    else:
        ph = _run(plan, scratch, seed, snap, faults_for(mode, k, backend), gap)
    w, sim = ph.world, ph.sim
    V: List[dict] = []

    def bad(clause, msg, detail=None):
        V.append({"clause": clause, "msg": f"[{cfg} fault at seam call {k}] {msg}",
                  "sig": f"{clause}|{backend}|{mode.split(':')[0]}", "plan_patch": {"fault_points": [k]},
                  "detail": detail})

    if sim.outcome != "ok":
        return common.assemble(ph, V, False, cfg)
    rec = w.history[0]
    fired = bool(sim.fired_log)
    first = sim.fired_log[0] if fired else None
    flipped_by_op = len(rec.get("flips", [])) > 0 or any(f["actor"] == "ut" and f["gstep"] <= rec.get("ret", 1 << 60)
                                                          for f in w.flips)
    # files written by the transaction under test
    written = set()
    for (g, _t, a, op, target, outcome) in sim.log:
        if a == "ut" and g <= rec.get("ret", 1 << 60) and op in ("replace", "put") and outcome == "ok":
            c = world.seams.classify_rel(target)
            if c in ("DATA", "MANIFEST", "MLIST", "META"):
                written.add(target)
    if first is not None and first["kind"] == "line_interrupt":
        if lf.get("flip_at") is not None and lf["flip_at"] < k:
            sim.probe("fault_after_flip")
            sim.probe("line_interrupt_after_flip")
    elif first is not None and any(f["actor"] == "ut" and f["gstep"] < _gstep_of(sim, first) for f in w.flips):
        sim.probe("fault_after_flip")
    if any(op == "remove" or op == "delete" for (_g, _t, a, op, tg, o) in sim.log if a == "ut"
           and world.seams.classify_rel(tg) == "DATA"):
        sim.probe("rollback_ran")

    # ---- state right after the op (harness-level read, taken when the op returned: use the state
    # after the whole phase but before the fresh process; follow-up append fu1 may have been added)
    try:
        st_end = w.state()
    except ir.IRError as e:
        bad("D.unreadable", f"a file referenced by a retained snapshot is missing or unreadable after the fault: {e}")
        return common.assemble(ph, V, fired, cfg)
    res_op = rec.get("resolved", {})
    outcome = rec["outcome"]
    exc = rec.get("exc")
    # reconstruct the state directly after the op under test = the version before fu1's flip
    fu = [h for h in w.history if h["op"].get("tag") == "fu1"]
    st_after = st_end
    if fu and fu[0].get("flips"):
        fl = w.flips[fu[0]["flips"][0]]
        p = ir.parse_hint(fl["old"]) if fl["old"] else None
        if p is not None:
            try:
                st_after = w.reader.state_of(w.view(), p[1], p[0])
            except ir.IRError as e:
                bad("D.unreadable", f"state after the faulted op unreadable: {e}")
                return common.assemble(ph, V, fired, cfg)
    is_pre = common.state_key(st_after) == common.state_key(pre)
    noop = bool(res_op.get("noop")) or ("delete_snapshot" in res_op and res_op.get("returned") is False)
    if noop:
        post_problems = [] if is_pre else [("noop", "a no-op changed the table")]
    elif st_after.pointer == pre.pointer:
        post_problems = [("pre", "pointer unchanged")]
    else:
        post_problems = model.refine(pre, st_after, res_op)
    is_post = not post_problems

    if outcome == "ok":
        sim.probe("outcome_ok_post")
        if not is_post:
            bad("D.ok_not_post", f"commit reported success but the table is not in the post-state: "
                                 f"{'pre-state' if is_pre else post_problems[:2]}")
    elif outcome == "raise":
        if exc == "AmbiguousCommitError":
            sim.probe("outcome_ambiguous")
            if not (is_pre or is_post):
                bad("D.ambiguous_state", f"ambiguous commit left neither pre nor post: {post_problems[:2]}")
            view = w.view()
            gone = [p for p in written if not view.exists(p)]
            if gone:
                bad("D.ambiguous_deleted", f"ambiguous outcome but files written by the transaction were deleted: {gone[:3]}")
            if backend == "local":
                bad("D.ambiguous_on_local", "AmbiguousCommitError on the local backend, where a failed pointer write is known not to have happened")
        else:
            caused_by_interrupt = False
            if is_pre:
                sim.probe("outcome_raise_pre")
            elif is_post:
                kind = first["kind"] if first else "?"
                if kind.startswith("error_after") and first and first["cls"] == "HINT":
                    pass  # effect-then-lost-response on the pointer: unknowable, must have been ambiguous
                bad("D.raise_but_post", f"commit raised {exc} (storage error) but the table is in the post-state")
            else:
                bad("D.raise_state", f"commit raised {exc} and left neither pre nor post: {post_problems[:2]}")
    elif outcome == "interrupted":
        sim.probe("outcome_interrupted")
        if not (is_pre or is_post):
            bad("D.interrupt_state", f"interrupted commit left neither pre nor post: {post_problems[:2]}")
    # uncommitted files never reachable when the state is pre
    if is_pre and not is_post:
        reach = st_after.reachable()
        live = reach["data"] | reach["manifests"] | reach["lists"]
        if written & live:
            bad("D.uncommitted_reachable", f"files of the failed transaction are reachable: {sorted(written & live)[:3]}")

    # ---- same-handle usability after storage-error faults
    if outcome != "interrupted":
        sc = [h for h in w.history if h["op"]["kind"] == "scan"]
        if sc and sc[0]["outcome"] != "ok":
            bad("D.same_handle_unreadable", f"scan through the same handle after the fault raised {sc[0].get('exc')}: "
                                            f"{sc[0].get('msg')}")
        elif sc and sc[0].get("resolved", {}).get("rows") != st_after.current_rows():
            bad("D.same_handle_rows", "scan through the same handle after the fault does not return the table's rows")
        if fu and fu[0]["outcome"] != "ok":
            bad("D.same_handle_unwritable", f"append through the same handle after the fault raised "
                                            f"{fu[0].get('exc')}: {fu[0].get('msg')}")

    elif rec.get("survived"):
        # the interrupted process lives on (Ctrl-C in a REPL): through a NEW handle it must still read and write
        sc = [h for h in w.history if h["op"]["kind"] == "scan"]
        if sc and sc[0]["outcome"] != "ok":
            bad("D.survivor_unreadable", f"scan from the process that survived the interrupt raised {sc[0].get('exc')}: {sc[0].get('msg')}")
        if fu and fu[0]["outcome"] != "ok":
            site = _interrupt_site(first) if first is not None and first["kind"] == "line_interrupt" else "seam"
            bad("D.survivor_unwritable", f"append from the process that survived the interrupt raised {fu[0].get('exc')}: "
                                         f"{(fu[0].get('msg') or '')[:200]} (interrupt landed at {first.get('target') if first else '?'}: {site})")
            if site == "release_entry":
                V[-1]["sig"] = "D.survivor_unwritable|release_entry"

    # ---- fresh process
    ph2 = Phase(plan, scratch, backend, seed ^ 0xBEEF, core.Policy(), start=sim.now + gap, store=w.store)
    ph2.actor("py", "fresh", [{"kind": "scan", "api": "scan"}, {"kind": "append", "tag": "fu2", "n": 1},
                              {"kind": "scan", "api": "scan"}])
    ph2.run()
    if ph2.sim.outcome == "ok":
        h2 = ph2.world.history
        if h2[0]["outcome"] != "ok":
            bad("D.fresh_unreadable", f"scan from a fresh process after the fault raised {h2[0].get('exc')}: {h2[0].get('msg')}")
        else:
            try:
                want = st_end.current_rows()
                if h2[0]["resolved"]["rows"] != want:
                    bad("D.fresh_rows", "scan from a fresh process differs from the independent reader")
            except Exception:
                pass
        if len(h2) > 1 and h2[1]["outcome"] != "ok":
            bad("D.fresh_unwritable", f"append from a fresh process after the fault raised {h2[1].get('exc')}: "
                                      f"{h2[1].get('msg')}")
        try:
            ph2.world.state()
        except ir.IRError as e:
            bad("D.unreadable", f"after recovery a retained snapshot is unreadable: {e}")
    nontrivial = fired and (outcome != "ok" or sim.probes.get("fault_after_flip", 0) > 0)
    sample = None
    if V or (fired and outcome != "ok" and k % 7 == 0):
        sample = {"config": cfg, "fault": first, "outcome": outcome, "exc": exc,
                  "state": "pre" if is_pre else ("post" if is_post else "other")}
    r = common.assemble(ph, V, nontrivial, cfg, sample, [f"{outcome}/{exc}/{'pre' if is_pre else 'post' if is_post else 'x'}"])
    for kx, vx in ph2.sim.probes.items():
        r["probes"][kx] = r["probes"].get(kx, 0) + vx
    r["steps"] += ph2.sim.gstep
    r["vtime"] += ph2.sim.now - ph2.sim.start
    if ph2.sim.outcome != "ok" and r["outcome"] == "ok":
        r["outcome"] = ph2.sim.outcome
        r["harness"] = "\n".join(ph2.sim.harness_errors)
    return r


def _gstep_of(sim, fired_entry) -> int:
    # global step of a fired fault: find in the log by actor + ordinal
    n = 0
    for (g, _t, a, op, tg, o) in sim.log:
        if a == fired_entry["actor"] and op != "sleep":
            n += 1
            if n == fired_entry["step"]:
                return g
    return 1 << 60
