"""C19 — locks exclude, time out, and never report a lock that is not held."""
from __future__ import annotations

import os
import random
from typing import Any, Dict, List, Optional

from dsim import core, ir, world
from dsim.core import SimDead, SimKilled
from . import common
from .common import Phase

PROP = "C19"
LEVEL = "exploration"
BUDGET = {"quick": 60, "thorough": 900}
MIN_BUDGET = {"quick": 25, "thorough": 120}
RULE = ("four workloads drawn per run. filelock: 2-3 contenders with their own FileLock object/fd (same or separate "
        "simulated processes) doing 1-3 acquire/hold/release cycles with per-contender timeouts 0.05-2 s and holds "
        "0-3 s, switch points at every open/flock/close/sleep, sometimes a holder's process killed while holding. "
        "commit: 2-3 local committers through MetadataManager with one process killed at a seeded storage call. "
        "s3cas: 2-3 contenders on the conditional-write S3 lock doing acquire/hold (polling is_held)/release with "
        "process pauses and request stalls of 1-200 s around the 60 s lease, heartbeat actors running, transient error bursts "
        "and stalls on the conditional lock PUTs of a process (renewal / takeover path), and two directed profiles: a renewal-vs-takeover "
        "race (holder paused past its lease, breaker's If-Match PUT in flight) and a release-and-re-acquire race (lease lapsed "
        "under failing renewals, holder re-acquires through the same instance while the breaker's PUT is in flight). s3poll: the "
        "best-effort provider, only its two stated guarantees. Oracles: critical-section intervals of different "
        "contenders never overlap; a takeover PUT is preceded by an inspection (HEAD or GET) at which true age > lease and "
        "does not replace an object written (renewed / re-acquired) less than a lease ago; acquire never "
        "succeeds while another holder's lease is live; a superseded holder's is_held() is false; TimeoutError no later than "
        "timeout + poll/retry sleep + epsilon for un-paused acquirers. Distinct = SHA-1 of lock/write "
        "events + fired faults; non-trivial = contention, a takeover, a timeout or a holder death occurred.")
ASSUMPTIONS = common.BASE_ASSUMPTIONS + [
    "real multi-process stress of the local lock is not simulation and is not done; separate fds in one interpreter take "
    "the same kernel flock path as separate processes",
    "S3 lock: no clock skew in this property (lease arithmetic under skew is exercised by C08)",
]
COMPONENTS = common.COMPONENTS
EXPECT_PROBES = ["flock_contended", "lock_timeout", "holder_died", "lock_takeover", "superseded_is_held_false",
                 "s3_lock_contended"]


def gen_renewal_race(rng: random.Random) -> dict:
    """Directed profile: a holder whose whole process is paused past its lease resumes (and its heartbeat renews)
    while a contender's takeover PUT - issued after a HEAD that saw the lease lapsed - is still in flight."""
    # timeline: c0 acquires at 0, its heartbeat renews at ~20; c0's process is paused at its 2nd ownership read
    # (~25 s) for `pause` seconds, so the lease (counted from the renewal at ~20) lapses at ~80 while it sleeps;
    # c1 starts polling shortly before that, its takeover PUT is stalled in flight, c0 resumes and renews first
    pause = rng.choice([58.0, 62.0, 66.0, 75.0])
    acts = [{"name": "c0", "proc": "p0", "cycles": [{"timeout": 30.0, "hold": 300.0, "pre": 0.0, "poll": 25.0}]},
            {"name": "c1", "proc": "p1", "cycles": [{"timeout": 100.0, "hold": rng.choice([1.0, 30.0]),
                                                     "pre": rng.choice([70.0, 78.0, 79.5]), "poll": 10.0}]}]
    faults = [{"kind": "pause", "actor": "c0", "op": "get", "cls": "LOCK", "nth": 2, "dt": pause},
              {"kind": "stall", "actor": "c1", "op": "put", "cls": "LOCK", "detail": {"if_match": True}, "nth": 1,
               "dt": rng.choice([1.0, 2.0, 5.0, 10.0])}]
    if rng.random() < 0.5:
        # the holder's FIRST renewal lands but its response is lost: whatever bookkeeping follows (ETag re-sync, write
        # counter) must still make the NEXT renewal change the object's bytes
        faults.append({"kind": "error_after", "proc": "p0", "op": "put", "cls": "LOCK", "detail": {"if_match": True}, "nth": 1,
                       "exc": rng.choice(["InternalError", "EndpointConnectionError"])})
    return {"mode": "s3cas", "policy": common.gen_policy(rng, 600), "faults": faults, "actors": acts,
            "profile": "renewal_race"}


def gen_reacquire_race(rng: random.Random) -> dict:
    """Directed profile: a holder whose renewals fail lets its lease lapse, releases and RE-ACQUIRES through the same
    provider instance, while a breaker's If-Match takeover PUT - issued when the first lease had lapsed - is in flight."""
    hold = rng.choice([66.0, 70.0, 75.0])
    acts = [{"name": "c0", "proc": "p0", "cycles": [{"timeout": 100.0, "hold": hold, "pre": 0.5, "poll": 10.0},
                                                     {"timeout": 30.0, "hold": 70.0, "pre": rng.choice([40.0, 65.0]), "poll": 45.0}]},
            {"name": "c2", "proc": "p2", "cycles": [{"timeout": 100.0, "hold": 70.0, "pre": rng.choice([62.0, 65.0]), "poll": 10.0}]}]
    faults = [{"kind": "pause", "actor": "c2", "op": "put", "cls": "LOCK", "nth": 2, "dt": rng.choice([70.0, 90.0, 110.0])},
              {"kind": "error", "proc": "p0", "op": "put", "cls": "LOCK", "detail": {"if_match": True}, "nth": 1,
               "exc": rng.choice(["ServiceUnavailable", "InternalError"]), "burst": 3}]
    return {"mode": "s3cas", "policy": common.gen_policy(rng, 600), "faults": faults, "actors": acts,
            "profile": "reacquire_race"}


def gen(rng: random.Random, tier: str, idx: int) -> dict:
    if idx % 12 == 7:
        return gen_renewal_race(rng)
    if idx % 12 == 3:
        return gen_reacquire_race(rng)
    mode = ["filelock", "s3cas", "filelock", "s3cas", "commit", "s3poll"][idx % 6]
    n = rng.randint(2, 3)
    plan: Dict[str, Any] = {"mode": mode, "policy": common.gen_policy(rng, 600), "faults": []}
    acts = []
    if mode == "filelock":
        same = rng.random() < 0.4
        for i in range(n):
            cyc = [{"timeout": rng.choice([0.05, 0.3, 1.0, 2.0, 30.0]), "hold": rng.choice([0.0, 0.02, 0.5, 3.0]),
                    "pre": rng.choice([0.0, 0.0, 0.01, 0.4])} for _ in range(rng.randint(1, 3))]
            acts.append({"name": f"c{i}", "proc": "p0" if same else f"p{i}", "cycles": cyc})
        plan["sharing"] = rng.choice(["none", "none", "instance", "fork_copy"])
        if plan["sharing"] == "instance":
            for a_ in acts:
                a_["proc"] = "p0"
            tmo = rng.choice([0.3, 2.0, 30.0])
            for a_ in acts:
                for c_ in a_["cycles"]:
                    c_["timeout"] = tmo
        if plan["sharing"] == "none" and not same and rng.random() < 0.4:
            v = rng.randrange(n)
            plan["faults"].append({"kind": "crash", "actor": f"c{v}", "op": rng.choice(["sleep_hold", "unflock", "close"]),
                                   "nth": 1})
    elif mode == "commit":
        for i in range(n):
            acts.append({"name": f"c{i}", "proc": f"p{i}",
                         "ops": [{"kind": "append", "tag": f"c{i}.{j}", "n": 1} for j in range(rng.randint(1, 2))]})
        plan["faults"].append({"kind": "crash", "proc": f"p{rng.randrange(n)}", "pstep": rng.randint(20, 130)})
    else:
        for i in range(n):
            cyc = [{"timeout": rng.choice([2.0, 10.0, 30.0, 100.0]), "hold": rng.choice([0.0, 1.0, 25.0, 70.0, 130.0, 200.0]),
                    "pre": rng.choice([0.0, 0.0, 0.5, 20.0, 65.0]), "poll": rng.choice([10.0, 10.0, 45.0, 1000.0])}
                   for _ in range(rng.randint(1, 2))]
            acts.append({"name": f"c{i}", "proc": f"p{i}", "cycles": cyc})
        for _ in range(rng.randint(0, 3)):
            plan["faults"].append({"kind": rng.choice(["pause", "pause", "stall"]), "actor": f"c{rng.randrange(n)}",
                                   "op": rng.choice(["put", "get", "delete", "head"]), "cls": "LOCK",
                                   "nth": rng.choice([1, 1, 2, 3]),
                                   "dt": rng.choice([1.0, 20.0, 45.0, 61.0, 90.0, 200.0])})
        if mode == "s3cas":
            # faults on the RENEWAL path (heartbeat thread of a holder's process; the same conditional PUT shape is the
            # takeover's): renewals failing transiently for a while, or one renewal / takeover PUT held in flight
            if rng.random() < 0.35:
                plan["faults"].append({"kind": "error", "proc": f"p{rng.randrange(n)}", "op": "put", "cls": "LOCK",
                                       "detail": {"if_match": True}, "nth": rng.choice([1, 1, 2]),
                                       "exc": rng.choice(["InternalError", "ServiceUnavailable", "EndpointConnectionError"]),
                                       "burst": rng.choice([1, 2, 3, 5])})
            if rng.random() < 0.2:
                plan["faults"].append({"kind": "error_after", "proc": f"p{rng.randrange(n)}", "op": "put", "cls": "LOCK",
                                       "detail": {"if_match": True}, "nth": rng.choice([1, 2]),
                                       "exc": rng.choice(["InternalError", "EndpointConnectionError"])})
            if rng.random() < 0.3:
                plan["faults"].append({"kind": "stall", "proc": f"p{rng.randrange(n)}", "op": "put", "cls": "LOCK",
                                       "detail": {"if_match": True}, "nth": rng.choice([1, 2, 3]),
                                       "dt": rng.choice([5.0, 30.0, 70.0])})
    plan["actors"] = acts
    return plan


def shrink(plan: dict):
    import copy
    acts = plan["actors"]
    if len(acts) > 2:
        for i in range(len(acts)):
            p = copy.deepcopy(plan)
            del p["actors"][i]
            yield p
    for i, a in enumerate(acts):
        key = "cycles" if "cycles" in a else "ops"
        for j in range(len(a[key])):
            if len(a[key]) > 1:
                p = copy.deepcopy(plan)
                del p["actors"][i][key][j]
                yield p
    for j in range(len(plan.get("faults", []))):
        p = copy.deepcopy(plan)
        del p["faults"][j]
        yield p
    if plan.get("policy", {}).get("kind") != "default":
        p = copy.deepcopy(plan)
        p["policy"] = {"kind": "default"}
        yield p


def _cycle_body(sim, lock_factory, cycles, ev: List[dict], name: str):
    def body():
        lock = lock_factory()
        for ci, c in enumerate(cycles):
            if c.get("pre"):
                sim.sleep(c["pre"])
            lock.timeout = c["timeout"]
            if hasattr(lock, "lock"):
                lock.lock.timeout = c["timeout"]
            e = {"actor": name, "cycle": ci, "timeout": c["timeout"], "call_g": sim.gstep, "call_t": sim.now}
            ev.append(e)
            try:
                ok = lock.acquire()
                e.update(ret_g=sim.gstep, ret_t=sim.now, ok=bool(ok))
            except TimeoutError:
                e.update(ret_g=sim.gstep, ret_t=sim.now, ok=False, timeout_raised=True)
                sim.probe("lock_timeout")
                continue
            except (SimDead, SimKilled):
                e.update(died=True)
                raise
            except Exception as x:
                e.update(ret_g=sim.gstep, ret_t=sim.now, ok=False, exc=repr(x)[:200])
                continue
            if not ok:
                continue
            # critical section: poll is_held while holding
            e["held_checks"] = []
            try:
                left = c["hold"]
                while True:
                    hv = lock.is_held()
                    e["held_checks"].append((sim.gstep, sim.now, bool(hv)))
                    if left <= 0:
                        break
                    dt = min(left, c.get("poll", 10.0))
                    # marker op so a crash fault can target "while holding"
                    sim.seam("sleep_hold", "LOCK", name, lambda: None, noyield=True)
                    sim.sleep(dt)
                    left -= dt
                e.update(rel_g=sim.gstep, rel_t=sim.now)
                lock.release()
                e.update(reld_g=sim.gstep, reld_t=sim.now)
            except (SimDead, SimKilled):
                e.update(died=True, died_g=sim.gstep)
                raise
    return body


def execute(plan: dict, scratch: str, replay: Optional[dict] = None) -> dict:
    common.fresh_scratch(scratch)
    seed = plan.get("run_seed", 0)
    mode = plan["mode"]
    pol = common.make_policy(plan.get("policy", {}), seed ^ 0x5EED, replay)
    V: List[dict] = []
    ev: List[dict] = []
    if mode == "commit":
        ph0 = common.run_setup(scratch, "local", seed, [{"kind": "append", "tag": "s0", "n": 1}])
        ph = Phase(plan, scratch, "local", seed, pol, faults=plan.get("faults"), start=ph0.sim.now + 1.0)
        for a in plan["actors"]:
            ph.actor(a["proc"], a["name"], a["ops"])
        ph.run()
        sim, w = ph.sim, ph.world
        if sim.outcome == "ok":
            for o in sim.extra.get("flock_overlaps", []):
                V.append({"clause": "K.flock_overlap", "msg": f"two live holders of {o['path']}: {o['holder']} and {o['second']}"})
            dead = {p.name for p in sim.procs.values() if not p.alive}
            if dead:
                sim.probe("holder_died")
            for h in w.history:
                if h["proc"] not in dead and h["outcome"] == "raise" and h.get("exc") == "TimeoutError":
                    V.append({"clause": "K.survivor_timeout",
                              "msg": f"{h['actor']} timed out on the commit lock although the only other holder had died: {h.get('msg')}"})
            try:
                w.state()
            except ir.IRError as e:
                V.append({"clause": "K.table_damaged", "msg": str(e)})
        nontrivial = sim.probes["flock_contended"] > 0 or bool(sim.fired_log)
    elif mode == "filelock":
        ph = Phase(plan, scratch, "local", seed, pol, faults=plan.get("faults"))
        sim, w = ph.sim, ph.world
        os.makedirs(w.root, exist_ok=True)
        path = os.path.join(w.root, ".locks", "x.lock")
        from datashard.file_lock import FileLock
        import copy as _copy
        sharing = plan.get("sharing", "none")
        if sharing == "none":
            for a in plan["actors"]:
                sim.spawn(sim.proc(a["proc"]), a["name"],
                          _cycle_body(sim, lambda: FileLock(path, 1.0), a["cycles"], ev, a["name"]))
        else:
            # "instance": threads of one process share one FileLock object. "fork_copy": every contender holds a
            # COPY of a lock object that was used once before the fork - a forked child inherits the parent's
            # descriptor table, i.e. the same open file descriptions, which is what a shallow copy in one
            # interpreter gives.
            def init():
                parent = FileLock(path, 1.0)
                parent.acquire()
                parent.release()
                for a in plan["actors"]:
                    lk = parent if sharing == "instance" else _copy.copy(parent)
                    sim.spawn(sim.proc(a["proc"]), a["name"],
                              _cycle_body(sim, lambda lk=lk: lk, a["cycles"], ev, a["name"]))
            sim.spawn(sim.proc("p0"), "init", init)
        ph.run()
        if sim.outcome == "ok":
            # upper bound: the configured timeout plus one polling interval; the interval itself is an implementation
            # detail, so a generous 1 s is allowed (what must not happen: no timeout, or one far beyond the setting)
            _check_intervals(sim, ev, V, poll=1.0, label="flock")
            for o in sim.extra.get("flock_overlaps", []):
                V.append({"clause": "K.flock_overlap", "msg": f"two live holders of {o['path']}: {o['holder']} and {o['second']}"})
        elif sim.outcome == "deadlock":
            V.append({"clause": "L.deadlock", "msg": "contenders blocked forever"})
        nontrivial = sim.probes["flock_contended"] > 0 or sim.probes["lock_timeout"] > 0 or bool(sim.fired_log)
        if any(e.get("died") for e in ev):
            sim.probe("holder_died")
    else:
        backend = "s3" if mode == "s3cas" else "s3poll"
        ph = Phase(plan, scratch, backend, seed, pol, faults=plan.get("faults"), max_steps=30000)
        sim, w = ph.sim, ph.world
        w.store.keep_history = True
        from datashard.storage_backend import create_storage_backend

        def mk():
            st = create_storage_backend(w.table_path)
            return st.create_lock(".locks/x.lock", timeout=30.0)
        for a in plan["actors"]:
            sim.spawn(sim.proc(a["proc"]), a["name"], _cycle_body(sim, mk, a["cycles"], ev, a["name"]))
        ph.run()
        if sim.outcome == "ok":
            paused = {f["actor"].split("/")[0] for f in sim.fired_log}
            if mode == "s3cas":
                _check_s3cas(sim, ev, V, paused)
            else:
                _check_s3poll(sim, ev, V, paused)
        elif sim.outcome == "deadlock":
            V.append({"clause": "L.deadlock", "msg": "contenders blocked forever"})
        nontrivial = (sim.probes["cas_conflict"] + sim.probes["lock_takeover"] + sim.probes["lock_timeout"]) > 0
        if sim.probes["cas_conflict"]:
            sim.probe("s3_lock_contended")
    for v in V:
        v.setdefault("sig", f"{v['clause']}|{mode}")
    sample = {"mode": mode, "actors": plan["actors"], "faults": plan.get("faults"),
              "events": [{k: e[k] for k in e if k != "held_checks"} for e in ev][:8]}
    res = common.assemble(ph, V if sim.outcome == "ok" or sim.outcome == "deadlock" else [], nontrivial, mode, sample)
    w.cleanup()
    return res


def _check_intervals(sim, ev, V, poll, label):
    """Critical sections [acquire returned, release called / holder died] never overlap; timeouts on time."""
    ivs = []
    for e in ev:
        if e.get("ok"):
            end = e.get("rel_g", e.get("died_g", 1 << 60))
            ivs.append((e["ret_g"], end, e["actor"], e))
    ivs.sort()
    for i in range(len(ivs)):
        for j in range(i + 1, len(ivs)):
            a, b = ivs[i], ivs[j]
            if a[2] != b[2] and b[0] < a[1]:
                V.append({"clause": "K.overlap", "msg": f"{label}: {a[2]} held the lock during steps [{a[0]},{a[1]}] and "
                                                        f"{b[2]} acquired it at step {b[0]}"})
    for e in ev:
        if e.get("timeout_raised"):
            el = e["ret_t"] - e["call_t"]
            if not (el <= e["timeout"] + poll + 0.05):      # stated: "within its configured timeout" - an upper bound only
                V.append({"clause": "K.timeout_time", "msg": f"{label}: {e['actor']} TimeoutError after {el:.3f}s with timeout "
                                                             f"{e['timeout']}s"})
        elif e.get("ok") and "ret_t" in e:
            el = e["ret_t"] - e["call_t"]
            if el > e["timeout"] + poll + 0.05:
                V.append({"clause": "K.acquired_after_timeout",
                          "msg": f"{label}: {e['actor']} acquire() returned success {el:.3f}s after the call, beyond its "
                                 f"{e['timeout']}s timeout"})


LEASE = 60.0


def _check_s3cas(sim, ev, V, paused):
    writes = sim.extra.get("lock_writes2", [])
    heads = sim.extra.get("lock_heads", [])
    dels = sim.extra.get("lock_deletes", [])
    ids: Dict[str, str] = {}
    for wv in writes:
        ids.setdefault(wv["actor"].split("/")[0], wv["body"])
    owner_of = {v: k for k, v in ids.items()}
    if len(owner_of) < len(ids):
        # two contenders write the SAME owner token into the lock object: nobody - not the contenders, not this oracle -
        # can tell whose lock it is (a release or an ownership check of one passes for the other's lock)
        dup = sorted(a for a in ids if list(ids.values()).count(ids[a]) > 1)
        V.append({"clause": "K.owner_token_shared",
                  "msg": f"contenders {dup} write the same owner token {ids[dup[0]]!r} into the lock object"})
    # (a) acquire returns only after a conditional PUT that made the content its id
    for e in ev:
        if e.get("ok"):
            mine = [wv for wv in writes if wv["actor"].split("/")[0] == e["actor"] and e["call_g"] < wv["g"] <= e["ret_g"]
                    and wv["mode"] in ("create", "cas")]
            if not mine:
                V.append({"clause": "K.acquire_without_cas", "msg": f"{e['actor']} acquire() returned True without a successful "
                                                                     f"conditional PUT of its id"})
    # logical holders timeline: (actor) -> acquire ret step .. release call step / death
    holds = []
    for e in ev:
        if e.get("ok"):
            holds.append({"actor": e["actor"], "from_g": e["ret_g"], "to_g": e.get("rel_g", e.get("died_g", 1 << 60)),
                          "ev": e})
    # (b)/(d) every ownership-gaining PUT
    for wv in writes:
        who = wv["actor"].split("/")[0]
        if wv["prev"] == wv["body"]:
            continue  # renewal
        if wv["prev"] is not None:
            victim = owner_of.get(wv["prev"])
            sim.probe("lock_takeover")
            hs = [h for h in heads if h[1].split("/")[0] == who and h[0] < wv["g"]]
            if not hs:
                V.append({"clause": "K.takeover_without_head", "msg": f"{who} took over {victim}'s lock without inspecting its age"})
                continue
            g, _a, tnow, mtime, body = hs[-1]
            if tnow - mtime <= LEASE:
                V.append({"clause": "K.takeover_live_lease",
                          "msg": f"{who} took over {victim}'s lock although at its HEAD the lease was live "
                                 f"(true age {tnow - mtime:.1f}s <= {LEASE}s)"})
            elif wv["prev_mtime"] is not None and wv["tt"] - wv["prev_mtime"] <= LEASE:
                # the lease had lapsed at the HEAD, but the holder renewed (same bytes => same ETag) before the
                # takeover PUT, which the If-Match did not notice
                V.append({"clause": "K.takeover_after_renewal",
                          "msg": f"{who}'s takeover PUT replaced {victim}'s lock {wv['tt'] - wv['prev_mtime']:.2f}s after {victim} "
                                 f"had renewed it (the renewal landed between {who}'s HEAD and PUT and did not change the ETag)"})
        else:
            # created on an absent key: was a live holder's object deleted by somebody else?
            last_del = [d for d in dels if d[0] < wv["g"]]
            for h in holds:
                if h["actor"] == who or not (h["from_g"] < wv["g"] < h["to_g"]):
                    continue
                # h's holder still inside its critical section: is its lease live and was it never legitimately taken over?
                hid = ids.get(h["actor"])
                hw = [x for x in writes if x["body"] == hid and x["g"] < wv["g"]]
                took = [x for x in writes if x["prev"] == hid and x["body"] != hid and h["from_g"] < x["g"] < wv["g"]]
                if took or not hw:
                    continue
                age = wv["t"] - hw[-1]["t"]
                if age <= LEASE:
                    culprit = [d for d in last_del if d[2] == hid and d[1].split("/")[0] != h["actor"]]
                    V.append({"clause": "K.acquired_while_lease_live",
                              "msg": f"{who} acquired the lock (create) while {h['actor']} was inside its critical section with "
                                     f"a live lease (renewed {age:.1f}s ago)"
                                     + (f"; {culprit[-1][1]} had deleted {h['actor']}'s lock object" if culprit else ""),
                              "sig": "K.acquired_while_lease_live|s3cas|" + ("foreign_delete" if culprit else "other")})
    # (c) superseded holder observes the loss
    for h in holds:
        hid = ids.get(h["actor"])
        took = [x for x in writes if x["prev"] == hid and x["body"] != hid and x["g"] > h["from_g"]]
        if not took:
            continue
        g0 = took[0]["g"]
        for (g, _t, val) in h["ev"].get("held_checks", []):
            if g > g0 + 0 and val and not any(x["body"] == hid and x["prev"] != hid and g0 < x["g"] < g for x in writes):
                # is_held() issued strictly after the takeover completed must be False
                V.append({"clause": "K.superseded_reports_held",
                          "msg": f"{h['actor']} is_held() returned True at step {g}, after its lock was taken over at step {g0}"})
            elif g > g0 and not val:
                sim.probe("superseded_is_held_false")
    # timeouts
    for e in ev:
        if e["actor"] in paused:
            continue
        if e.get("timeout_raised"):
            el = e["ret_t"] - e["call_t"]
            if not (el <= e["timeout"] + 3.0):      # stated: "within its configured timeout" - an upper bound only
                V.append({"clause": "K.timeout_time", "msg": f"s3cas: {e['actor']} TimeoutError after {el:.2f}s (timeout {e['timeout']}s)"})


def _check_s3poll(sim, ev, V, paused):
    """Best-effort provider: (1) no renewal PUT after its own lease lapsed, (2) is_held() false after the deadline."""
    writes = sim.extra.get("lock_writes2", [])
    for e in ev:
        if not e.get("ok"):
            continue
        who = e["actor"]
        if who in paused:
            continue        # a stalled/paused request lands late through no fault of the provider
        mine = [wv for wv in writes if wv["actor"].split("/")[0] == who]
        # each renewal (plain PUT with prev==body by heartbeat) must start no later than lease after the previous own write
        prev_t = None
        for wv in mine:
            if prev_t is not None and wv["actor"] != who and wv["t"] - prev_t > LEASE + 1.0:
                V.append({"clause": "K.poll_renew_after_lapse",
                          "msg": f"{who}: renewal PUT {wv['t'] - prev_t:.1f}s after its previous write (lease {LEASE}s)"})
            prev_t = wv["t"]
        for (g, t, val) in e.get("held_checks", []):
            last = [wv for wv in mine if wv["g"] < g]
            if last and val and t - last[-1]["t"] > LEASE + 1.0:
                V.append({"clause": "K.poll_is_held_after_deadline",
                          "msg": f"{who}: is_held() True {t - last[-1]['t']:.1f}s after its last lock write"})
