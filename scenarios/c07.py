"""C07 — garbage collection fails closed."""
from __future__ import annotations

import os
import random
from typing import List, Optional

from dsim import core, ir, world
from . import common
from .common import Phase

PROP = "C07"
LEVEL = "fault_enumeration"
BUDGET = {"quick": 60, "thorough": 900}
MIN_BUDGET = {"quick": 20, "thorough": 60}
RULE = ("tables with 2-4 retained snapshots, aged orphans, one open transaction and (usually) a writer that died "
        "mid-commit (so in-flight data files, manifests, a manifest list and their fresh markers exist); one "
        "collection with grace 0 or 1 h (then with a just-written, marker-less staged file that only its age protects) executed once fault-free to enumerate its storage calls, then re-executed from a "
        "restored copy with one untrusted input: (a) an exception at storage call k (local OSError; S3 transient "
        "burst beyond the retry budget, or permanent AccessDenied), (b) one reachable metadata-plane file (current "
        "metadata file, each manifest list, each manifest) made missing / truncated / replaced by noise or by the JSON document {}, each "
        "checked unparseable by the independent reader first, (c) a listing that returns an escaping path at the "
        "start / middle / end, (d) a marker that is unreadable / un-stat-able / undeletable (subsumed by (a) on "
        "marker calls). quick samples, thorough sweeps every k and every file. One evaluation = one (table, fault). "
        "Oracle: no reachable or marker-protected file, and no file younger than the grace period, is ever deleted; if the collection raises, it performs no "
        "delete after the untrusted input was delivered; if it returns normally every protection was kept. "
        "Non-trivial = the fault fired / the damaged file was read by the collector. Listing anomalies are an escaping entry at the "
        "start / middle / end of a listing, or list_files of an existing directory raising FileNotFoundError / NotADirectoryError / PermissionError.")
ASSUMPTIONS = common.BASE_ASSUMPTIONS + [
    "deletions of true orphans made in a phase that completed before the untrusted input was delivered are not counted "
    "against a collection that later raises",
    "a dead writer's markers younger than 24 h keep protecting its files",
]
COMPONENTS = common.COMPONENTS
EXPECT_PROBES = ["gc_raised_closed", "gc_returned_despite_fault", "damage_read", "fault_on_marker_call", "listing_anomaly"]

MODES = ["err", "err", "err", "damage", "damage", "listing"]


def gen(rng: random.Random, tier: str, idx: int) -> dict:
    backend = "local" if rng.random() < 0.65 else "s3"
    setup: List[dict] = []
    for k in range(rng.randint(2, 4)):
        setup.append({"kind": "append", "tag": f"s{k}", "n": 1})
    setup.append({"kind": "delete_file", "tag": "sd", "k": rng.randint(0, 2), "with_append": rng.random() < 0.5})
    if rng.random() < 0.5:
        setup.append({"kind": "expire", "tag": "se", "k": 1, "delta": 0})
    setup.append({"kind": "rollback", "tag": "sr", "n": 1})
    mode = MODES[idx % len(MODES)]
    if backend == "local":
        exc = rng.choice(["EIO", "EACCES", "EIO"])
        burst = 1
    else:
        exc, burst = rng.choice([("InternalError", 7), ("AccessDenied", 1), ("EndpointConnectionError", 7)])
    return {"backend": backend, "setup": setup, "mode": mode, "exc": exc, "burst": burst,
            "dead_writer": rng.random() < 0.8, "dead_at": rng.choice(["META", "HINT", "HINT"]),
            "dead_op": rng.choice(["rewrite", "drop_oldest", "expire_old"]),
            "open_tx": rng.random() < 0.7, "open_tx_nested": rng.random() < 0.4, "grace_ms": rng.choice([0, 0, 3600000]), "staged_young": rng.random() < 0.7,
            "points": None, "sample": 8 if tier == "quick" else None,
            "k_seed": rng.randrange(1 << 30)}


def shrink(plan: dict):
    import copy
    for j in range(len(plan.get("setup", []))):
        if len(plan["setup"]) > 2:
            p = copy.deepcopy(plan)
            del p["setup"][j]
            yield p
    for key in ("dead_writer", "open_tx"):
        if plan.get(key):
            p = copy.deepcopy(plan)
            p[key] = False
            yield p


def _prepare(plan, scratch, seed):
    """Committed history, then (optionally) a writer that dies just before its pointer flip, an open
    transaction, then everything aged by 2 h."""
    backend = plan["backend"]
    ph0 = common.run_setup(scratch, backend, seed, list(plan["setup"]))
    store = ph0.world.store
    now = ph0.sim.now
    if plan.get("dead_writer"):
        cls = plan.get("dead_at", "META")
        op = ("replace" if backend == "local" else "put")
        ph1 = Phase(plan, scratch, backend, seed ^ 1, core.Policy(), start=now + 1.0, store=store,
                    faults=[{"kind": "crash", "proc": "pdead", "op": op, "cls": cls, "nth": 1}])
        # what the dying writer was committing decides what its left-over, never-committed v(N+1) metadata file says:
        # a rewrite keeps every snapshot; a snapshot deletion / expiry DROPS retained snapshots - a collector that
        # trusted that file would see their files as unreachable
        dop = {"rewrite": {"kind": "delete_file", "tag": "dw", "k": 0, "with_append": True},
               "drop_oldest": {"kind": "delete_snapshot", "k": 0},
               "expire_old": {"kind": "expire", "tag": "dw", "k": 9, "delta": 0}}[plan.get("dead_op", "rewrite")]
        ph1.actor("pdead", "dead", [dop])
        ph1.run()
        now = ph1.sim.now
        if len(ph1.world.flips):
            raise core.HarnessError("dead writer flipped the pointer")
    return store, now


def _gc_phase(plan, scratch, seed, snap, faults):
    store = snap.restore()
    ph = Phase(plan, scratch, plan["backend"], seed ^ 2, core.Policy(), faults=faults, start=snap.now, store=store,
               max_steps=40000)
    ph.sim.keep_steplog = True
    ops = []
    if plan.get("open_tx"):
        if plan.get("open_tx_nested"):
            # the open transaction registered a pre-built file living in a sub-directory of data/
            ops.append({"kind": "tx_open", "id": 0, "tag": "otx", "n": 1, "prebuilt": True, "dir": "p=9"})
        else:
            ops.append({"kind": "tx_open", "id": 0, "tag": "otx", "n": 1})
    ops += [{"kind": "sleep", "dt": 7200.0}]
    if plan.get("staged_young"):
        # a pre-built file staged for a later append_files: unreachable, no marker, protected only by its age
        ops.append({"kind": "stage_file", "name": "staged_young.parquet"})
    ops.append({"kind": "gc", "grace_ms": plan.get("grace_ms", 0)})
    ph.actor("pgc", "gc", ops)
    return ph


def _truth(w: world.World, sim) -> dict:
    st = w.state(deep=True, rows=False)
    reach = st.reachable()
    live = reach["data"] | reach["manifests"] | reach["lists"]
    prot, fresh = common.gc_protected_before(w, sim.true_time() + 7200.0)
    return {"live": live, "protected": prot, "markers": fresh, "state": st, "reach": reach}


def execute(plan: dict, scratch: str, replay: Optional[dict] = None) -> dict:
    common.fresh_scratch(scratch)
    seed = plan.get("run_seed", 0)
    backend = plan["backend"]
    cfg = f"{backend}/{plan['mode']}"
    store, now = _prepare(plan, scratch, seed)
    # snapshot holder phase (no actors) just to capture storage + clock
    phs = Phase(plan, scratch, backend, seed, core.Policy(), start=now + 1.0, store=store)
    snap = common.Snapshot(phs)
    truth = _truth(phs.world, phs.sim)
    ref = _gc_phase(plan, scratch, seed, snap, None)
    ref.run()
    grec = [h for h in ref.world.history if h["op"]["kind"] == "gc"][0]
    if ref.sim.outcome != "ok" or grec["outcome"] != "ok":
        raise core.HarnessError(f"reference GC failed: {ref.sim.outcome} {grec.get('exc')} {grec.get('msg')}")
    lo, hi = grec["resolved"]["gc_start_step"], grec["resolved"]["gc_end_step"]
    ref_deleted = set(common.gc_deleted(ref.sim, "gc", lo, hi))
    results = []
    bad_ref = ref_deleted & (truth["live"] | truth["protected"] | truth["markers"])
    if bad_ref:
        # fault-free collection already deletes protected files: belongs to C05/C06, report under its own clause
        results.append(_res(ref, [{"clause": "F.faultfree_deleted_protected",
                                   "msg": f"[{cfg}] fault-free collection deleted {sorted(bad_ref)[:2]}",
                                   "sig": f"F.faultfree_deleted_protected|{backend}"}], False, cfg))
    # enumerate fault points
    gsteps = [s for s in ref.sim.steplog if s[0] == "gc"]
    first_gc_step = None
    n = 0
    for (g, _t, a, op, _tg, _o) in ref.sim.log:
        if a == "gc" and op != "sleep":
            n += 1
            if g > lo and first_gc_step is None:
                first_gc_step = n
    gsteps = [s for s in gsteps if s[1] >= (first_gc_step or 1)]
    pts = plan.get("points")
    mode = plan["mode"]
    if pts is None:
        r = random.Random(plan.get("k_seed", 0))
        if mode == "err":
            cand = [["err", s[1]] for s in gsteps if s[3] not in ("list_result", "disk_usage")]
        elif mode == "damage":
            files = [f"metadata/{truth['state'].pointer}"] + sorted(truth["reach"]["lists"]) + sorted(truth["reach"]["manifests"])
            cand = [["damage", f, how] for f in files for how in ("missing", "truncate", "noise", "half", "json_empty")]
            # the in-flight markers themselves: emptied, replaced by noise, or emptied AND carrying a legacy-style name
            # (`<data file basename>.inflight`, what older writers used - then without payload, for files directly in data/)
            cand += [["damage", m, how] for m in sorted(truth["markers"]) for how in ("marker_empty", "noise", "marker_legacy_empty")]
        else:
            cand = [["listing", s[1], pos, ent] for s in gsteps if s[3] == "list_result"
                    for pos in ("start", "mid", "end")
                    for ent in ("../../outside/file", "data/../../outside", "..")]
            # ... or the listing of an existing directory RAISES an error class that reads like "nothing there"
            cand += [["listing", s[1], "start", "RAISE:" + e] for s in gsteps if s[3] == "list_result"
                     for e in ("FileNotFoundError", "NotADirectoryError", "PermissionError")]
        r.shuffle(cand)
        if plan.get("sample"):
            marker_first = [c for c in cand if mode == "err" and any(s[1] == c[1] and s[4] == "MARKER" for s in gsteps)]
            cand = (marker_first[:3] + [c for c in cand if c not in marker_first[:3]])[:plan["sample"]]
        pts = cand
    for pt in pts:
        results.append(_one(plan, scratch, seed, snap, truth, pt, cfg, ref_deleted, gsteps))
    if not results:
        results.append(_res(ref, [], False, cfg))
    res = common.merge_results(results, plan, cfg)
    common.shutil.rmtree(scratch, ignore_errors=True)
    return res


def _res(ph, V, nontrivial, cfg, sample=None):
    return common.assemble(ph, V, nontrivial, cfg, sample)


def _damage(w: world.World, rel: str, how: str) -> bool:
    """Apply stored-state damage directly to the storage (harness level). Returns False when the
    damaged file still parses (outside the statement)."""
    view = w.view()
    try:
        data = view.read(rel)
    except Exception:
        return False
    if how == "missing":
        new = None
    elif how == "truncate":
        new = data[: max(1, min(len(data) - 1, 7))]
    elif how == "half":
        new = data[: len(data) // 2]
    elif how == "json_empty":
        new = b"{}"      # well-formed JSON, but not a metadata file / manifest list / manifest
    elif how in ("marker_empty", "marker_legacy_empty"):
        new = b""
    else:
        new = bytes((b * 131 + 17) % 256 for b in data[:64]) * 2
    if w.backend == "local":
        import os
        p = os.path.join(w.root, rel)
        mt = os.path.getmtime(p)
        if new is None:
            os.remove(p)
        else:
            with open(p, "wb") as f:
                f.write(new)
            os.utime(p, (mt, mt))
    else:
        b = w.store.bucket(w.bucket)
        key = f"{w.prefix}/{rel}" if w.prefix else rel
        if new is None:
            b.pop(key, None)
        else:
            from dsim.s3fake import Obj
            old = b[key]
            b[key] = Obj(new, old.mtime, "damage")
    if rel.endswith(".inflight"):
        if how == "marker_legacy_empty":
            # give the emptied marker the name an older writer would have used for the same target
            import json as _json
            try:
                tgt = _json.loads(data.decode("utf-8")).get("file_path", "")
            except Exception:
                tgt = ""
            legacy = rel.rsplit("/", 1)[0] + "/" + (tgt.rsplit("/", 1)[-1] or "x") + ".inflight"
            if w.backend == "local":
                os.replace(os.path.join(w.root, rel), os.path.join(w.root, legacy))
            else:
                b = w.store.bucket(w.bucket)
                key = f"{w.prefix}/{rel}" if w.prefix else rel
                b[(f"{w.prefix}/{legacy}" if w.prefix else legacy)] = b.pop(key)
        return True      # an emptied / garbled marker is unreadable by definition
    # must be unparseable for the independent reader, else it is outside the statement
    rd = ir.Reader()
    try:
        if rel.endswith(".metadata.json"):
            rd.metadata_raw(view, rel.split("/", 1)[1])
        elif "manifest_list_" in rel:
            rd.manifest_list(view, rel)
        else:
            rd.manifest(view, rel)
        return False
    except ir.IRError:
        return True


def _one(plan, scratch, seed, snap, truth, pt, cfg, ref_deleted, gsteps) -> dict:
    backend = plan["backend"]
    kind = pt[0]
    faults = None
    if kind == "err":
        faults = [{"kind": "error", "actor": "gc", "step": pt[1], "exc": plan["exc"], "burst": plan["burst"]}]
    elif kind == "listing":
        faults = [{"kind": "value", "actor": "gc", "step": pt[1], "op": "list_result", "pos": pt[2], "entry": pt[3]}]
    ph = _gc_phase(plan, scratch, seed, snap, faults)
    w, sim = ph.world, ph.sim
    V: List[dict] = []
    desc = "/".join(str(x) for x in pt)

    def bad(clause, msg, sigx=""):
        key = "points"
        V.append({"clause": clause, "msg": f"[{cfg} {desc}] {msg}", "sig": f"{clause}|{backend}|{kind}{sigx}",
                  "plan_patch": {key: [pt]}})

    damaged_ok = True
    if kind == "damage":
        damaged_ok = _damage(w, pt[1], pt[2])
        if not damaged_ok:
            sim.probe("damage_still_parses")
    ph.run()
    if sim.outcome != "ok" or not damaged_ok:
        return _res(ph, V, False, cfg)
    grec = [h for h in w.history if h["op"]["kind"] == "gc"]
    if not grec:
        return _res(ph, V, False, cfg)
    grec = grec[0]
    res = grec.get("resolved", {})
    lo, hi = res.get("gc_start_step", 0), res.get("gc_end_step", 1 << 60)
    dels = [(g, tg) for (g, _t, a, op, tg, o) in sim.log if a == "gc" and lo < g <= hi and op in ("remove", "delete")
            and o == "ok"]
    deleted = {tg for (_g, tg) in dels}
    open_files = set()
    for h in w.history:
        if h["op"]["kind"] == "tx_open":
            open_files |= set(h.get("resolved", {}).get("tx_files", []))
    protected = truth["live"] | truth["protected"] | truth["markers"] | open_files
    hit = deleted & protected
    if hit:
        what = world.seams.classify_rel(sorted(hit)[0])
        bad("F.deleted_protected", f"collection ({grec['outcome']}{'/' + str(grec.get('exc')) if grec.get('exc') else ''}) deleted "
                                   f"reachable / in-flight-protected file(s) {sorted(hit)[:2]}", f"|{what}")
    # the grace period is a protection too: a candidate younger than the grace period must survive, also (especially)
    # when its age could not be determined
    if plan.get("grace_ms", 0) > 0 and plan.get("staged_young"):
        if "data/staged_young.parquet" in deleted:
            bad("F.deleted_young", f"collection ({grec['outcome']}) with grace {plan['grace_ms']} ms deleted data/staged_young.parquet, "
                                   f"written moments before the collection (its age was unknown or ignored)")
    # instant the untrusted input was delivered
    delivered = None
    fired = bool(sim.fired_log)
    if kind in ("err", "listing") and fired:
        nn = 0
        for (g, _t, a, op, tg, o) in sim.log:
            if a == "gc" and op != "sleep":
                nn += 1
                if nn >= pt[1] and (o.startswith("ERR") or o.startswith("VALUE")):
                    delivered = g
                    break
        f0 = sim.fired_log[0]
        if f0["cls"] == "MARKER":
            sim.probe("fault_on_marker_call")
        if kind == "listing":
            sim.probe("listing_anomaly")
    elif kind == "damage":
        for (g, _t, a, op, tg, o) in sim.log:
            if a == "gc" and g > lo and tg == pt[1] and op in ("open", "get", "stat", "head"):
                delivered = g
                sim.probe("damage_read")
                break
    if grec["outcome"] == "raise":
        sim.probe("gc_raised_closed")
        if delivered is not None:
            late = [tg for (g, tg) in dels if g > delivered]
            if late:
                bad("F.deleted_after_untrusted", f"collection raised {grec.get('exc')} but deleted {len(late)} file(s) after the "
                                                 f"untrusted input was delivered, e.g. {late[:2]}")
    elif grec["outcome"] == "ok" and (fired or kind == "damage"):
        sim.probe("gc_returned_despite_fault")
        if kind == "damage" and delivered is None and pt[2] != "missing":
            pass
    # the table itself must be as readable as before (damage aside)
    if kind != "damage":
        try:
            w.state(deep=True, rows=False)
        except ir.IRError as e:
            bad("F.table_damaged", f"after the faulted collection a retained snapshot is unreadable: {e}")
    nontrivial = (fired or (kind == "damage" and delivered is not None))
    sample = None
    if V or (nontrivial and hash(desc) % 9 == 0):
        sample = {"config": cfg, "fault": pt, "gc_outcome": grec["outcome"], "exc": grec.get("exc"),
                  "deleted": sorted(deleted)[:4], "fired": sim.fired_log[:1]}
    return _res(ph, V, nontrivial, cfg, sample)
