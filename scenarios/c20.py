"""C20 — both storage backends implement the same contract."""
from __future__ import annotations

import io
import os
import random
from typing import Any, Dict, List, Optional

from dsim import core, world
from . import common
from .common import Phase

PROP = "C20"
LEVEL = "exploration"
BUDGET = {"quick": 60, "thorough": 900}
MIN_BUDGET = {"quick": 20, "thorough": 60}
RULE = ("three workloads. ops: seeded sequences (6-20 steps) of write / write_json / read / read_json / open_file / exists "
        "/ list_files / delete / get_size / mtime-order / read-with-etag over the key space {data/x, data/sub/z, "
        "data2/y, database, metadata/a, metadata/inflight/m, metadata.version-hint.text, dat} applied to a "
        "LocalStorageBackend (reference) and an S3StorageBackend over the in-memory S3 model, results compared step by "
        "step (values, FileNotFoundError vs other error, sorted table-relative listings, sizes). seek: programs of <= 8 "
        "steps of seek(whence)/read(n)/read()/readinto/tell over objects of sizes {0,1,2,2^20-1,2^20,2^20+1} through "
        "open_seekable (buffered) and the raw range reader, compared with a local file, every Range header checked "
        "in-range. faults: one S3 operation with a transient burst within the budget (must be masked, <= 6 attempts, "
        "virtual back-off), beyond it (must raise) or a permanent code (must surface at attempt 1); the burst starts at "
        "the 1st-4th request of the operation and listings are paginated with page size 1/2/3/1000. Distinct = hash of "
        "the operation program; non-trivial = the program contains a listing or existence query after >= 2 writes, a "
        "seek past a buffer boundary, or a fired fault.")
ASSUMPTIONS = common.BASE_ASSUMPTIONS + [
    "the local backend is the reference model for the sequence-equivalence half, except for exists(), where the stated "
    "contract (exact keys only) is the reference for both",
]
COMPONENTS = common.COMPONENTS
EXPECT_PROBES = ["listing_compared", "notfound_compared", "seek_program", "range_requests", "transient_masked",
                 "permanent_fast_fail", "budget_exhausted"]

KEYS = ["data/x", "data/sub/z", "data2/y", "database", "metadata/a", "metadata/inflight/m", "metadata.version-hint.text",
        "dat", "data/x.parquet"]
PREFIXES = ["data", "metadata", "data/sub", "metadata/inflight", "data2", "nosuch", "dat", "data/"]
SIZES = [0, 1, 2, 2 ** 20 - 1, 2 ** 20, 2 ** 20 + 1, 5000]


def gen(rng: random.Random, tier: str, idx: int) -> dict:
    mode = ["ops", "seek", "ops", "faults"][idx % 4]
    if mode == "ops":
        prog = []
        for _ in range(rng.randint(6, 20)):
            r = rng.random()
            k = rng.choice(KEYS)
            if r >= 0.36 and rng.random() < 0.12:
                k = rng.choice(["data/sub", "data", "metadata/inflight"])    # a name that is (or may become) a DIRECTORY, not a key
            if r < 0.3:
                prog.append(["write", k, rng.randint(0, 40), rng.randrange(256)])
            elif r < 0.36:
                prog.append(["write_json", k, rng.randint(0, 5)])
            elif r < 0.46:
                prog.append(["read", k])
            elif r < 0.5:
                prog.append(["read_json", k])
            elif r < 0.55:
                prog.append(["open_file", k])
            elif r < 0.67:
                prog.append(["exists", rng.choice([k, k, "data", "metadata", "data/sub", "data/", "metadata/inflight", "data/" + "x" * 300])])
            elif r < 0.82:
                prog.append(["list", rng.choice(PREFIXES)])
            elif r < 0.9:
                prog.append(["delete", k])
            elif r < 0.96:
                prog.append(["size", k])
            else:
                prog.append(["etag", k])
        return {"mode": mode, "prog": prog}
    if mode == "seek":
        size = rng.choice(SIZES)
        prog = []
        for _ in range(rng.randint(1, 8)):
            r = rng.random()
            if r < 0.35:
                wh = rng.choice([0, 0, 1, 2])
                base = {0: 0, 1: 0, 2: 0}[wh]
                off = rng.choice([0, 1, -1, 5, size, size - 1, size + 3, -size, -size - 1, size // 2, 2 ** 20, -(2 ** 20), 7])
                prog.append(["seek", off, wh])
            elif r < 0.7:
                prog.append(["read", rng.choice([0, 1, 2, 10, 4096, 2 ** 20, 2 ** 20 + 5, size, size + 1])])
            elif r < 0.8:
                prog.append(["readall"])
            elif r < 0.92:
                prog.append(["readinto", rng.choice([0, 1, 8, 70000, 2 ** 20 + 1])])
            else:
                prog.append(["tell"])
        return {"mode": mode, "size": size, "prog": prog, "raw": rng.random() < 0.4}
    # faults
    op = rng.choice(["read", "write", "exists", "list", "delete", "size", "mtime", "open_seekable_read", "read_json",
                     "read_missing", "size_missing", "mtime_missing", "open_missing", "etag_missing", "exists_missing", "open_read", "open_read_chunks",
                     "seekable_missing"])
    exc, burst = rng.choice([("InternalError", 1), ("InternalError", 3), ("InternalError", 5), ("SlowDown", 5),
                             ("InternalError", 6), ("InternalError", 9), ("EndpointConnectionError", 4),
                             ("EndpointConnectionError", 8), ("AccessDenied", 1), ("NoSuchBucket", 1),
                             ("RequestTimeout", 2), ("ExpiredToken", 1), ("InvalidArgument", 1), ("MethodNotAllowed", 1),
                             ("NoCredentialsError", 1), ("ParamValidationError", 1), ("Throttling", 3)])
    return {"mode": mode, "op": op, "exc": exc, "burst": burst, "page_size": rng.choice([1, 2, 3, 1000]),
            "offset": rng.choice([0, 0, 1, 2, 3])}


def shrink(plan: dict):
    import copy
    if "prog" in plan:
        for j in range(len(plan["prog"])):
            if len(plan["prog"]) > 1:
                p = copy.deepcopy(plan)
                del p["prog"][j]
                yield p


def _norm_exc(e: BaseException) -> str:
    if isinstance(e, FileNotFoundError):
        return "NotFound"
    if isinstance(e, (IsADirectoryError, NotADirectoryError)):
        return "DirError"
    return "Error:" + type(e).__name__


def _content(n: int, seed: int) -> bytes:
    return bytes(((i * 7 + seed) % 251) for i in range(n))


def _apply(st, step) -> Any:
    op = step[0]
    try:
        if op == "write":
            st.write_file(step[1], _content(step[2], step[3]))
            return "ok"
        if op == "write_json":
            st.write_json(step[1], {"a": step[2], "b": [1, 2]})
            return "ok"
        if op == "read":
            return ("bytes", st.read_file(step[1]))
        if op == "read_json":
            return ("json", st.read_json(step[1]))
        if op == "open_file":
            with st.open_file(step[1]) as f:
                return ("bytes", f.read())
        if op == "exists":
            return ("bool", bool(st.exists(step[1])))
        if op == "list":
            return ("list", sorted(p.replace(os.sep, "/") for p in st.list_files(step[1])))
        if op == "delete":
            st.delete_file(step[1])
            return "ok"
        if op == "size":
            return ("int", st.get_size(step[1]))
        if op == "etag":
            b, _e = st.read_file_with_etag(step[1])
            return ("bytes", b)
    except (core.SimDead, core.SimKilled):
        raise
    except Exception as e:
        return ("exc", _norm_exc(e))
    raise ValueError(op)


def execute(plan: dict, scratch: str, replay: Optional[dict] = None) -> dict:
    from datashard.storage_backend import LocalStorageBackend, S3RangeFile, S3StorageBackend
    common.fresh_scratch(scratch)
    seed = plan.get("run_seed", 0)
    mode = plan["mode"]
    faults = None
    if mode == "faults":
        faults = [{"kind": "error", "actor": "h", "step": 1, "exc": plan["exc"], "burst": plan["burst"], "op_index": None}]
        faults[0].pop("op_index")
    ph = Phase(plan, scratch, "s3", seed, core.Policy(), faults=None, max_steps=60000)
    w, sim = ph.world, ph.sim
    V: List[dict] = []
    local_root = os.path.join(scratch, "loc")
    os.makedirs(local_root, exist_ok=True)
    sim.extra["roots"] = [os.path.realpath(local_root)]
    nontrivial = [False]

    def bad(clause, msg, sig):
        if not V:
            V.append({"clause": clause, "msg": msg, "sig": f"{clause}|{sig}"})

    def body():
        loc = LocalStorageBackend(local_root)
        s3 = S3StorageBackend(bucket="bkt", prefix="tbl", use_conditional_writes=True)
        if mode == "ops":
            nw = 0
            written_dirs = set()
            live = set()
            for i, step in enumerate(plan["prog"]):
                if step[0] in ("write", "write_json"):
                    # a key cannot be both a file and a directory on a filesystem; keep the key space consistent
                    k = step[1]
                    nw += 1
                a = _apply(loc, step)
                b = _apply(s3, step)
                if step[0] in ("write", "write_json") and not (isinstance(a, tuple) and a[0] == "exc"):
                    live.add(step[1])
                if step[0] == "delete":
                    live.discard(step[1])
                if step[0] == "exists" and step[1].endswith("/"):
                    # a directory question is not a question about an exact key: with no key under the name, a file system
                    # may still hold the EMPTY directory (S3 cannot) - the stated contract fixes the answer only when a key
                    # lives under it (both True); with none, S3 must say False and the local answer is unconstrained
                    under = any(k.startswith(step[1]) for k in live)
                    want = ("bool", under)
                    if b != want or (under and a != want):
                        violations.append({"clause": "B.backends_differ",
                                           "msg": f"step {i} {step}: directory query with {'a' if under else 'no'} key under "
                                                  f"it: local -> {a}, s3 -> {b}", "sig": "B.backends_differ|exists_dir"})
                    continue
                # (exists() on a name that is a directory locally is compared too: "existence of exact keys only")
                if step[0] == "list":
                    sim.probe("listing_compared")
                    if nw >= 2:
                        nontrivial[0] = True
                if isinstance(a, tuple) and a[0] == "exc" and a[1] == "NotFound":
                    sim.probe("notfound_compared")
                if isinstance(a, tuple) and a[0] == "exc" and (
                        (a[1] == "DirError" and step[0] in ("write", "write_json")) or a[1].startswith("Error:")):
                    # local-only structural errors of WRITES (the key is a directory / its parent is a file) have no S3
                    # counterpart; reading / sizing / deleting a directory name is a question about a key that does not
                    # exist and is compared
                    continue
                if a != b:
                    what = step[0] + (":" + step[1] if step[0] == "list" else "")
                    bad("B.backends_differ", f"step {i} {step[:2]}: local -> {_short(a)}, s3 -> {_short(b)}", what)
                    return
        elif mode == "seek":
            size = plan["size"]
            data = _content(size, 3)
            loc.write_file("data/obj", data)
            s3.write_file("data/obj", data)
            sim.extra["ranges"] = []
            if plan.get("raw"):
                fa = open(os.path.join(local_root, "data/obj"), "rb", buffering=0)
                fb = S3RangeFile(s3.s3, s3.bucket, s3._get_s3_key("data/obj"), s3.get_size("data/obj"))
            else:
                fa = loc.open_seekable("data/obj")
                try:
                    fb = s3.open_seekable("data/obj")
                except (core.SimDead, core.SimKilled):
                    raise
                except Exception as e:
                    # opening an existing object for seekable reading works on the local backend: a raise here is a
                    # difference between the backends, not a harness problem
                    bad("B.seek_differs", f"size {size} buffered: local open_seekable() returns a file, s3 raises "
                                          f"{type(e).__name__}: {str(e)[:100]}", "open")
                    return
            sim.probe("seek_program")
            for i, step in enumerate(plan["prog"]):
                ra, rb = _seek_step(fa, step), _seek_step(fb, step)
                if ra[0] == "exc" and rb[0] == "exc":
                    continue
                if ra != rb:
                    bad("B.seek_differs", f"size {size} {'raw' if plan.get('raw') else 'buffered'} step {i} {step}: local -> {_short(ra)}, s3 -> {_short(rb)}",
                        step[0])
                    return
                try:
                    ta, tb = fa.tell(), fb.tell()
                except Exception:
                    continue
                if ta != tb:
                    bad("B.position_differs", f"size {size} step {i} {step}: local position {ta}, s3 position {tb}", step[0])
                    return
            for (key, lo, hi, n) in sim.extra.get("ranges", []):
                sim.probe("range_requests")
                if not (0 <= lo <= hi < n):
                    bad("B.range_out_of_bounds", f"Range bytes={lo}-{hi} requested on an object of {n} bytes", "range")
                    return
            if any(s[0] == "seek" for s in plan["prog"]) and size >= 2 ** 20 - 1:
                nontrivial[0] = True
        else:
            s3.write_file("data/obj", _content(3000, 5))
            for kx in range(5):
                s3.write_file(f"data/k{kx}", b"x" * kx)
            s3.write_json("metadata/j", {"k": 1})
            w.store.page_size = plan.get("page_size", 1000)
            # response bodies are fault points too (reset / timeout mid-download) - for transient faults only: a permanent
            # S3 error arrives as an error document, never in the middle of a body
            w.store.stream_faults = plan["exc"] not in PERMANENT
            op = plan["op"]
            expect = _fault_op(s3, op)          # fault-free answer
            t0 = sim.now
            n0 = w.store.requests
            a = sim.me()
            sim.faults.append(core.Fault({"kind": "error", "actor": "h", "exc": plan["exc"], "burst": plan["burst"],
                                          "min_step": a.step + 1 + plan.get("offset", 0)}))
            got = _fault_op(s3, op)
            nreq = w.store.requests - n0
            fired = len(sim.fired_log)
            nontrivial[0] = fired > 0
            permanent = plan["exc"] in PERMANENT
            burst = plan["burst"]
            if fired == 0:
                sim.probe("fault_not_reached")      # the operation issued fewer requests than the fault's offset
                sim.faults.pop()
                return
            if op == "write":
                expect = "ok"
            if permanent:
                if got[0] != "exc":
                    bad("B.permanent_swallowed", f"{op}: permanent {plan['exc']} did not surface (got {_short(got)})", op)
                elif fired != 1:
                    bad("B.permanent_retried", f"{op}: permanent {plan['exc']} was retried ({fired} failing attempts)", op)
                else:
                    sim.probe("permanent_fast_fail")
            elif burst <= 5 and (not op.endswith("_missing") or op == "exists_missing"
                                 or plan.get("offset", 0) + burst <= 5):
                # (on a missing key every attempt ends in an error - 404s are retried by design - so the error that
                #  surfaces is the one of the 6th attempt: it is the 404 only if the burst is over by then)
                if got != expect:
                    bad("B.transient_not_masked", f"{op}: transient {plan['exc']} x{burst} (within budget) changed the result: "
                                                  f"{_short(got)} instead of {_short(expect)}", op)
                elif fired > 6:
                    bad("B.too_many_attempts", f"{op}: {fired} failing attempts", op)
                else:
                    sim.probe("transient_masked")
                    if fired and sim.now - t0 < 0.1 * fired * 0.5:
                        sim.probe("retried_without_backoff")      # (pacing of the retries is not part of the statement)
            else:
                # beyond the budget the statement promises nothing: surfacing the error is expected, masking even more
                # failures (e.g. a resumed stream that retries on its own) is not a violation - but a wrong answer is
                if got[0] != "exc":
                    if got != expect:
                        bad("B.transient_not_masked", f"{op}: {fired} failures, then a DIFFERENT result: {_short(got)} instead "
                                                      f"of {_short(expect)}", op)
                    else:
                        sim.probe("masked_beyond_budget")
                else:
                    sim.probe("budget_exhausted")
    sim.spawn(sim.proc("p0"), "h", body)
    ph.run()
    if sim.outcome != "ok":
        V = []
    import hashlib
    res = common.assemble(ph, V, nontrivial[0], mode, {"plan": {k: plan[k] for k in plan if k not in ("run_seed", "idx")}})
    res["sched_sig"] = hashlib.sha1(repr({k: plan[k] for k in plan if k not in ("run_seed", "idx")}).encode()).hexdigest()
    w.cleanup()
    return res


# errors no retry can fix: the service's "no" on credentials / permissions / the request itself (HTTP 4xx other than
# throttling and request time-outs), and errors raised by the SDK before anything is sent
PERMANENT = ("AccessDenied", "NoSuchBucket", "ExpiredToken", "InvalidArgument", "MethodNotAllowed", "NoCredentialsError",
             "ParamValidationError")


def _fault_op(s3, op):
    try:
        if op == "read":
            return ("bytes", s3.read_file("data/obj"))
        if op == "write":
            s3.write_file("data/w", b"abc")
            return "ok"
        if op == "exists":
            return ("bool", s3.exists("data/obj"))
        if op == "list":
            return ("list", sorted(s3.list_files("data")))
        if op == "delete":
            s3.delete_file("data/nothing")
            return "ok"
        if op == "size":
            return ("int", s3.get_size("data/obj"))
        if op == "mtime":
            return ("float", round(s3.get_modified_time("data/obj"), 3))
        if op == "read_json":
            return ("json", s3.read_json("metadata/j"))
        if op == "read_missing":
            return ("bytes", s3.read_file("data/absent"))
        if op == "size_missing":
            return ("int", s3.get_size("data/absent"))
        if op == "mtime_missing":
            return ("float", s3.get_modified_time("data/absent"))
        if op == "open_missing":
            with s3.open_file("data/absent") as f:
                return ("bytes", f.read())
        if op == "open_read":
            with s3.open_file("data/obj") as f:
                return ("bytes", f.read())
        if op == "open_read_chunks":
            out = b""
            with s3.open_file("data/obj") as f:
                while True:
                    c = f.read(97)
                    if not c:
                        break
                    out += c
            return ("bytes", out)
        if op == "etag_missing":
            return ("bytes", s3.read_file_with_etag("data/absent")[0])
        if op == "exists_missing":
            return ("bool", s3.exists("data/absent"))
        if op == "seekable_missing":
            return ("bytes", s3.open_seekable("data/absent").read(3))
        if op == "open_seekable_read":
            f = s3.open_seekable("data/obj")
            f.seek(100)
            return ("bytes", f.read(50))
    except (core.SimDead, core.SimKilled):
        raise
    except Exception as e:
        return ("exc", _norm_exc(e))


def _seek_step(f, step):
    try:
        if step[0] == "seek":
            return ("pos", f.seek(step[1], step[2]))
        if step[0] == "read":
            r = f.read(step[1])
            return ("bytes", r if r is not None else b"")
        if step[0] == "readall":
            r = f.readall() if hasattr(f, "readall") else f.read()
            return ("bytes", r)
        if step[0] == "readinto":
            b = bytearray(step[1])
            n = f.readinto(b)
            return ("into", n, bytes(b[: n or 0]))
        if step[0] == "tell":
            return ("pos", f.tell())
    except (core.SimDead, core.SimKilled):
        raise
    except Exception as e:
        return ("exc", type(e).__name__)


def _short(x) -> str:
    s = repr(x)
    return s if len(s) < 120 else s[:117] + "..."
