"""C10 — the version pointer is only a hint: losing or corrupting it never loses data."""
from __future__ import annotations

import os
import random
from typing import List, Optional

from dsim import core, ir, model, world
from dsim.s3fake import Obj
from . import common
from .common import Phase, RefineChecker

PROP = "C10"
LEVEL = "exploration"
BUDGET = {"quick": 60, "thorough": 900}
MIN_BUDGET = {"quick": 25, "thorough": 120}
RULE = ("history phase: 1-2 committers x 2-5 commits (appends, deletes, expiries, snapshot deletions) on local / CAS-S3, "
        "with pointer-write failures injected (local: the pointer rename fails cleanly; S3: lost CAS races between "
        "concurrent committers and pointer PUT errors) so that metadata files of never-committed versions are left "
        "behind; the committed set is the list of versions the pointer ever named (flip log). Then the pointer is "
        "replaced by one of: missing, empty, whitespace, noise, invalid UTF-8, legacy numeric naming nothing, "
        "numeric strings str.isdigit() accepts but int() does not (superscript / circled digits, 5000 digits), other-script "
        "digits, a signed number, names with NUL / upper-case hex / a path component / a 5000-digit or superscript version, "
        "well-formed name of a file that never existed (version below / above the latest), the right name with "
        "trailing newline / spaces, a STALE committed version, or a legacy numeric pointer next to a legacy-named copy "
        "of the latest version. A fresh process then runs a seeded subsequence of {load_table, create_table(other "
        "schema), append, GC(grace 0 after 2 h), reopen} - or, in a third of the runs, ONE long-lived handle meets the unusable "
        "pointer twice with a commit through another handle in between. Oracle: the table resolves to the latest committed version "
        "(uuid, snapshot list, rows), is not re-initialised, the next commit refines the latest committed version, GC "
        "deletes nothing it references, and no never-committed version is surfaced. Distinct = SHA-1 of write/pointer "
        "events + pointer class; non-trivial = uncommitted metadata files existed or the pointer was unusable. Path-like pointer classes: "
        "../name, ../../other/metadata/name, /abs/name, metadata/<current name>, backslashes.")
ASSUMPTIONS = common.BASE_ASSUMPTIONS + [
    "the committed set is what the flip observer saw the pointer name; orphan metadata files come only from failed / "
    "conflicting commits (crash orphans belong to C03)",
]
COMPONENTS = common.COMPONENTS
EXPECT_PROBES = ["pointer_unusable", "cas_conflict", "failed_pointer_write",
                 "stale_pointer"]

POINTERS = ["missing", "empty", "whitespace", "noise", "badutf8", "legacy_nothing", "named_missing_low",
            "named_missing_high", "trailing_newline", "trailing_spaces", "stale", "legacy_layout", "intact",
            "unicode_digit", "circled_digit", "huge_number", "arabic_digits", "signed_number", "name_with_nul",
            "name_uppercase_hex", "name_with_path", "name_huge_version", "name_unicode_version",
            "name_with_deep_path", "name_with_abs_path", "name_with_subdir", "name_with_backslash_path"]
AFTER = ["load", "create_other", "append", "gc", "reopen"]


def gen(rng: random.Random, tier: str, idx: int) -> dict:
    backend = "local" if rng.random() < 0.6 else "s3"
    nact = 1 if backend == "local" or rng.random() < 0.4 else 2
    actors = []
    for i in range(nact):
        ops = []
        for j in range(rng.randint(2, 5)):
            r = rng.random()
            tag = f"a{i}.{j}"
            if r < 0.6:
                ops.append({"kind": "append", "tag": tag, "n": 1, "style": rng.choice(["records", "with"])})
            elif r < 0.75:
                ops.append({"kind": "delete_file", "tag": tag, "k": rng.randint(0, 3), "with_append": rng.random() < 0.5})
            elif r < 0.88:
                ops.append({"kind": "expire", "tag": tag, "k": rng.randint(0, 3), "delta": 0})
            else:
                ops.append({"kind": "delete_snapshot", "k": rng.randint(0, 3)})
        actors.append({"name": f"a{i}", "proc": f"p{i}", "ops": ops})
    faults = []
    for _ in range(rng.choice([0, 1, 1, 2])):
        a = rng.randrange(nact)
        if backend == "local":
            faults.append({"kind": "error", "actor": f"a{a}", "op": "replace", "cls": "HINT", "nth": rng.randint(1, 4),
                           "exc": rng.choice(["EIO", "ENOSPC"])})
        else:
            # S3 pointer PUT error = AMBIGUOUS outcome: the metadata file must stay (the PUT may have landed)
            faults.append({"kind": "error", "actor": f"a{a}", "op": "put", "cls": "HINT", "nth": rng.randint(1, 4),
                           "exc": rng.choice(["InternalError", "EndpointConnectionError"])})
    if rng.random() < 0.12:
        # a committer killed between its metadata write and the pointer flip leaves the same kind of file behind
        a = rng.randrange(nact)
        faults.append({"kind": "crash", "actor": f"a{a}", "op": "replace" if backend == "local" else "put", "cls": "HINT",
                       "nth": rng.randint(1, 3)})
    after = [x for x in AFTER if rng.random() < 0.6] or ["load"]
    if after[0] not in ("load", "create_other", "append"):
        after.insert(0, rng.choice(["load", "create_other", "append"]))
    return {"backend": backend, "actors": actors, "faults": faults, "pointer": POINTERS[idx % len(POINTERS)],
            "after": after, "policy": common.gen_policy(rng, 800), "long_lived": rng.random() < 0.35}


def shrink(plan: dict):
    import copy
    yield from common.generic_shrink(plan)
    for j in range(len(plan["after"])):
        if len(plan["after"]) > 1:
            p = copy.deepcopy(plan)
            del p["after"][j]
            yield p


def _meta_names(w: world.World) -> set:
    return {p.rsplit("/", 1)[-1] for p in w.view().list("metadata") if p.endswith(".metadata.json")}


def _commit_flips(flips: list, before: set) -> list:
    """A commit points the table at a metadata file that did not exist before the operation began; a pointer write
    naming a file that was already there is a RESTORE of a lost pointer (no commit), whoever performs it."""
    out = []
    for f in flips:
        pn = ir.parse_hint(f["new"]) if f["new"] is not None else None
        if pn is not None and pn[1] in before:
            continue
        out.append(f)
    return out


def _write_pointer(w: world.World, content: Optional[bytes], t: float) -> None:
    if w.backend == "local":
        p = os.path.join(w.root, ir.HINT)
        if content is None:
            if os.path.exists(p):
                os.remove(p)
        else:
            with open(p, "wb") as f:
                f.write(content)
            os.utime(p, (t, t))
    else:
        b = w.store.bucket(w.bucket)
        key = f"{w.prefix}/{ir.HINT}"
        if content is None:
            b.pop(key, None)
        else:
            b[key] = Obj(content, t, "damage")


def _put_file(w: world.World, rel: str, content: bytes, t: float) -> None:
    if w.backend == "local":
        p = os.path.join(w.root, rel)
        with open(p, "wb") as f:
            f.write(content)
        os.utime(p, (t, t))
    else:
        w.store.bucket(w.bucket)[f"{w.prefix}/{rel}"] = Obj(content, t, "damage")


def _damage(w, ptr, latest_name, latest_ver, committed, view, tnow):
    """Replace the pointer by the chosen class. Returns the stale name used (stale class) or None."""
    if ptr == "missing":
        _write_pointer(w, None, tnow)
    elif ptr == "empty":
        _write_pointer(w, b"", tnow)
    elif ptr == "whitespace":
        _write_pointer(w, b"  \n\t ", tnow)
    elif ptr == "noise":
        _write_pointer(w, bytes((i * 37 + 11) % 256 for i in range(40)), tnow)
    elif ptr == "badutf8":
        _write_pointer(w, b"v3-\xff\xfe\xfd.metadata.json", tnow)
    elif ptr == "legacy_nothing":
        _write_pointer(w, str(latest_ver).encode(), tnow)
    elif ptr == "unicode_digit":
        _write_pointer(w, "\u00b2".encode("utf-8"), tnow)            # SUPERSCRIPT TWO: str.isdigit() is True, int() fails
    elif ptr == "circled_digit":
        _write_pointer(w, "\u2460".encode("utf-8"), tnow)            # CIRCLED DIGIT ONE
    elif ptr == "huge_number":
        _write_pointer(w, b"9" * 5000, tnow)                         # beyond the int-conversion digit limit
    elif ptr == "arabic_digits":
        _write_pointer(w, "\u0663".encode("utf-8"), tnow)            # ARABIC-INDIC DIGIT THREE: int() accepts it
    elif ptr == "signed_number":
        _write_pointer(w, b"-1", tnow)
    elif ptr == "name_with_nul":
        _write_pointer(w, b"v1-0000\x000000.metadata.json", tnow)
    elif ptr == "name_uppercase_hex":
        _write_pointer(w, b"v1-DEADBEEF.metadata.json", tnow)
    elif ptr == "name_with_path":
        _write_pointer(w, b"../v1-deadbeef.metadata.json", tnow)
    elif ptr == "name_with_deep_path":
        # enough '..' hops to leave the table root: whatever the parser makes of it, storage's traversal guard must not
        # turn the pointer into an exception at open time
        _write_pointer(w, b"../../other/metadata/v1-deadbeef.metadata.json", tnow)
    elif ptr == "name_with_abs_path":
        _write_pointer(w, b"/etc/metadata/v1-deadbeef.metadata.json", tnow)
    elif ptr == "name_with_subdir":
        _write_pointer(w, b"metadata/" + latest_name.encode(), tnow)
    elif ptr == "name_with_backslash_path":
        _write_pointer(w, b"..\\..\\v1-deadbeef.metadata.json", tnow)
    elif ptr == "name_huge_version":
        _write_pointer(w, b"v" + b"9" * 5000 + b"-deadbeef.metadata.json", tnow)   # version beyond the int() digit limit
    elif ptr == "name_unicode_version":
        _write_pointer(w, "v\u00b2-deadbeef.metadata.json".encode("utf-8"), tnow)    # \d matches it, int() rejects it
    elif ptr == "named_missing_low":
        _write_pointer(w, b"v0-deadbeef.metadata.json", tnow)
    elif ptr == "named_missing_high":
        _write_pointer(w, f"v{latest_ver + 3}-deadbeef.metadata.json".encode(), tnow)
    elif ptr == "trailing_newline":
        _write_pointer(w, latest_name.encode() + b"\n", tnow)
    elif ptr == "trailing_spaces":
        _write_pointer(w, b" " + latest_name.encode() + b"  \r\n", tnow)
    elif ptr == "stale":
        older = [n for n in committed[:-1] if view.exists(f"metadata/{n}")]
        if older:
            name = older[len(older) // 2]
            _write_pointer(w, name.encode(), tnow)
            w.sim.probe("stale_pointer")
            return name
    elif ptr == "legacy_layout":
        _put_file(w, f"metadata/v{latest_ver}.metadata.json", view.read(f"metadata/{latest_name}"), tnow)
        _write_pointer(w, str(latest_ver).encode(), tnow)
        committed.append(f"v{latest_ver}.metadata.json")
    return None


def execute(plan: dict, scratch: str, replay: Optional[dict] = None) -> dict:
    common.fresh_scratch(scratch)
    seed = plan.get("run_seed", 0)
    backend = plan["backend"]
    ph0 = common.run_setup(scratch, backend, seed, [{"kind": "append", "tag": "s0", "n": 1}])
    names0 = [ir.parse_hint(f["new"])[1] for f in ph0.world.flips if f["new"] and ir.parse_hint(f["new"])]
    ph = Phase(plan, scratch, backend, seed, common.make_policy(plan.get("policy", {}), seed ^ 0x5EED, replay),
               faults=plan.get("faults"), start=ph0.sim.now + 1.0, store=ph0.world.store)
    w, sim = ph.world, ph.sim
    chk = RefineChecker(w, commit_order=[sid for (_t, sid) in ph0.world.state().snapshot_log], clauses=set())
    for a in plan["actors"]:
        ph.actor(a["proc"], a["name"], a["ops"])
    ph.run()
    V: List[dict] = []
    ptr = plan["pointer"]
    cfg = f"{backend}/{ptr}"
    if sim.outcome != "ok":
        res = common.assemble(ph, [{"clause": "L.deadlock", "msg": "history phase deadlocked"}] if sim.outcome == "deadlock" else [],
                              False, cfg)
        w.cleanup()
        return res
    if sim.fired_log:
        sim.probe("failed_pointer_write", len(sim.fired_log))
    committed = names0 + [ir.parse_hint(f["new"])[1] for f in w.flips if f["new"] and ir.parse_hint(f["new"])]
    latest_name = committed[-1]
    latest_ver = ir.parse_hint(latest_name.encode())[0]
    view = w.view()
    L = w.reader.state_of(view, latest_name, latest_ver)
    on_disk = w.reader.metadata_files(view)
    orphans = [(v, n) for (v, n) in on_disk if n not in committed]
    rel = "none"
    if orphans:
        sim.probe("orphan_metadata_present")
        mx = max(v for v, _n in orphans)
        rel = "higher" if mx > latest_ver else ("equal" if mx == latest_ver else "lower")
        if rel == "higher":
            sim.probe("orphan_higher_version")
        # why is it there? clean failures remove their file (fix 6e33d4e); what remains comes from outcomes that
        # cannot be cleaned up: an ambiguous pointer write (the file may be referenced) or a dead writer
        if any(h.get("exc") == "AmbiguousCommitError" for h in w.history):
            cause = "ambiguous"
        elif any(not p_.alive for p_ in sim.procs.values()):
            cause = "crash"
        else:
            cause = "clean"
        rel = f"{rel}:{cause}"
        sim.probe(f"orphan_from_{cause}")
    # ---- damage the pointer
    tnow = sim.true_time()
    stale_name = None
    damage = lambda: _damage(w, ptr, latest_name, latest_ver, committed, view, tnow)   # noqa: E731
    stale_name = damage()
    if ptr not in ("trailing_newline", "trailing_spaces", "intact", "legacy_layout") and not (ptr == "stale" and not stale_name):
        sim.probe("pointer_unusable")
    # ---- fresh process
    ph2 = Phase(plan, scratch, backend, seed ^ 0xC10, core.Policy(), start=sim.now + 100.0, store=w.store, max_steps=40000)
    w2, sim2 = ph2.world, ph2.sim
    pclass = ptr if ptr in ("stale", "legacy_layout", "intact", "trailing_newline", "trailing_spaces") else "unusable"
    sig_tail = f"|{pclass}" + ("" if pclass == "stale" else f"|orphan_{rel}")

    def bad(clause, msg):
        V.append({"clause": clause, "msg": f"[{cfg}, uncommitted metadata: {rel}] {msg}", "sig": f"{clause}{sig_tail}"})

    Lkey = common.state_key(L)
    expect = {"rows": L.current_rows(), "base": L, "appended": False}

    def check_handle(t, what):
        md = t.metadata_manager.refresh()
        if md is None:
            bad("P.no_table", f"{what}: the library sees no table")
            return
        if md.table_uuid != L.uuid:
            bad("P.reinitialised", f"{what}: table uuid {md.table_uuid} != {L.uuid} (re-initialised)")
            return
        if not expect["appended"]:
            got_ids = [s.snapshot_id for s in md.snapshots]
            want_ids = [s.id for s in L.snaps]
            if got_ids != want_ids or md.current_snapshot_id != L.current_id or md.last_updated_ms != L.last_updated_ms:
                info = t.metadata_manager._current_version_info()
                nm = info[1] if info else None
                kind = ("a never-committed version" if nm not in committed else
                        ("an older committed version" if nm != latest_name else "the latest version, altered"))
                bad("P.resolved_wrong_version",
                    f"{what}: the table resolves to {nm} ({kind}); latest committed is {latest_name}")
                return
        try:
            rows = tuple(sorted((ir.row_key(r) for r in t.scan()), key=repr))
        except Exception as e:
            bad("P.unreadable", f"{what}: scan raised {e!r}"[:300])
            return
        if rows != tuple(sorted(expect["rows"], key=repr)):
            bad("P.rows", f"{what}: scan returns {len(rows)} rows, committed data has {len(expect['rows'])}")

    def do_append(t, tag):
        rows = world.mkrows(tag, 2)
        nfl = len(w2.flips)
        before = _meta_names(w2)
        t.append_records(rows)
        cfl = _commit_flips(w2.flips[nfl:], before)
        if len(cfl) != 1:
            bad("P.append_flips", f"append after pointer damage produced {len(cfl)} commit flips")
            return False
        fl = cfl[-1]
        pn = ir.parse_hint(fl["new"])
        N = w2.reader.state_of(w2.view(), pn[1], pn[0])
        probs = [p for p in model.refine(expect["base"], N, {"appends": [rows]}) if p[0] not in ("R.mlog",)]
        if probs:
            bad("P.commit_not_on_latest", f"a commit after pointer damage is not the latest committed version + the "
                                          f"append: {probs[:2]}")
            return False
        expect["base"] = N
        expect["rows"] = tuple(list(expect["rows"]) + [ir.row_key(r) for r in rows])
        expect["appended"] = True
        expect["latest"] = pn
        committed.append(pn[1])
        return True

    def body_long_lived():
        """A long-lived handle meets the damaged pointer twice, with a commit through another handle in between."""
        import datashard
        try:
            tA = datashard.load_table(w2.table_path)
            check_handle(tA, "long-lived handle, first pointer loss")
            if V:
                return
            tB = datashard.load_table(w2.table_path)
            if not do_append(tB, "other"):
                return
            ver, name = expect["latest"]
            _damage(w2, ptr, name, ver, committed, w2.view(), sim2.true_time())
            w2.resync_hint()
            sim2.probe("second_pointer_loss")
            check_handle(tA, "long-lived handle, second pointer loss (another handle committed in between)")
            if V:
                return
            do_append(tA, "again")
        except (core.SimDead, core.SimKilled):
            raise
        except Exception as e:
            bad("P.op_raised", f"long-lived handle sequence raised {type(e).__name__}: {str(e)[:200]}")
            V[-1]["sig"] = f"P.op_raised|long_lived|{type(e).__name__}{sig_tail}"

    def body():
        import datashard
        t = None
        for step in plan["after"]:
            try:
                if step == "load":
                    t = datashard.load_table(w2.table_path)
                    check_handle(t, "load_table")
                elif step == "create_other":
                    t = datashard.create_table(w2.table_path, schema=world.schema(1, world.SCHEMAS["B"]))
                    check_handle(t, "create_table(other schema)")
                    md = t.metadata_manager.refresh()
                    if md is not None:
                        cur = [s.fields for s in md.schemas if s.schema_id == md.current_schema_id]
                        if cur and cur[0] != L.schema_fields:
                            bad("P.schema_replaced", "create_table on the existing table replaced its persisted schema")
                elif step == "reopen":
                    t = datashard.load_table(w2.table_path)
                    check_handle(t, "reopen")
                elif step == "append":
                    if t is None:
                        t = datashard.load_table(w2.table_path)
                    rows = world.mkrows("post", 2)
                    nfl = len(w2.flips)
                    before = _meta_names(w2)
                    t.append_records(rows)
                    cfl = _commit_flips(w2.flips[nfl:], before)
                    if len(cfl) != 1:
                        bad("P.append_flips", f"append after pointer damage produced {len(cfl)} commit flips")
                    else:
                        fl = cfl[-1]
                        pn = ir.parse_hint(fl["new"])
                        N = w2.reader.state_of(w2.view(), pn[1], pn[0])
                        probs = model.refine(expect["base"], N, {"appends": [rows]})
                        probs = [p for p in probs if p[0] not in ("R.mlog",)]
                        if probs:
                            bad("P.commit_not_on_latest", f"the first commit after pointer damage is not the latest committed "
                                                          f"version + the append: {probs[:2]}")
                        expect["base"] = N
                        expect["rows"] = tuple(list(expect["rows"]) + [ir.row_key(r) for r in rows])
                        expect["appended"] = True
                        committed.append(pn[1])
                elif step == "gc":
                    if t is None:
                        t = datashard.load_table(w2.table_path)
                    sim2.sleep(7200.0)
                    g0 = sim2.gstep
                    t.garbage_collect(grace_period_ms=0)
                    dels = set(common.gc_deleted(sim2, "post", g0, 1 << 60))
                    reach = expect["base"].reachable()
                    hit = dels & (reach["data"] | reach["manifests"] | reach["lists"])
                    if hit:
                        bad("P.gc_deleted_committed", f"GC after pointer damage deleted files of the committed table: {sorted(hit)[:2]}")
            except (core.SimDead, core.SimKilled):
                raise
            except Exception as e:
                if step == "gc" and type(e).__name__ == "GarbageCollectionAborted":
                    sim2.probe("gc_aborted_after_damage")
                    continue
                bad("P.op_raised", f"{step} after pointer damage raised {type(e).__name__}: {str(e)[:200]}")
                V[-1]["sig"] = f"P.op_raised|{step}|{type(e).__name__}{sig_tail}"
                return
    use_ll = bool(plan.get("long_lived")) and pclass == "unusable"
    sim2.spawn(sim2.proc("post"), "post", body_long_lived if use_ll else body)
    ph2.run()
    if sim2.probes.get("flock_acquired") is None:
        pass
    # final: the pointer must name a committed version and the data must be intact
    if sim2.outcome == "ok" and not V:
        try:
            pp = w2.reader.pointer(w2.view())
            fin = w2.state() if (pp is not None and w2.view().exists(f"metadata/{pp[1]}")) else None
            if fin is not None and fin.pointer not in committed:
                bad("P.pointer_names_uncommitted", f"the pointer now names {fin.pointer}, which was never committed")
        except ir.IRError as e:
            bad("P.final_unreadable", str(e))
    elif sim2.outcome not in ("ok",):
        V = []
    nontrivial = bool(orphans) or ptr not in ("intact", "trailing_newline", "trailing_spaces")
    res = common.assemble(ph, V[:1], nontrivial, cfg, {"pointer": ptr, "orphans": orphans, "latest": latest_name,
                                                       "after": plan["after"]})
    for k, v in sim2.probes.items():
        res["probes"][k] = res["probes"].get(k, 0) + v
    res["steps"] += sim2.gstep
    res["vtime"] += sim2.now - sim2.start
    if sim2.outcome != "ok":
        res["outcome"] = sim2.outcome
        res["harness"] = "\n".join(sim2.harness_errors)
    w.cleanup()
    return res
