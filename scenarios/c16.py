"""C16 — commits are durable: the pointer never outruns the data it references (local backend)."""
from __future__ import annotations

import hashlib
import os
import random
import shutil
from typing import Dict, List, Optional

from dsim import core, ir, world
from dsim.shadow import Shadow
from . import common
from .common import Phase

PROP = "C16"
LEVEL = "fault_enumeration"
BUDGET = {"quick": 60, "thorough": 900}
MIN_BUDGET = {"quick": 20, "thorough": 60}
RULE = ("local backend; seeded history of 0-3 commits (treated as fully durable), then one operation under test (create, "
        "append in three styles, append_files of a pre-built file written WITHOUT fsync by the caller (top level / new sub-directory), two-append txn, delete file (+append), expire (+append), delete_snapshot, GC; and 2-3 "
        "writer THREADS SHARING ONE HANDLE or separate handles committing concurrently under a seeded scheduler) executed "
        "with a durability shadow attached to every os-level call: per-inode content captured at fsync(fd), per-"
        "directory name->inode map captured at fsync(dirfd). A power loss is evaluated after EVERY durable-state change "
        "and after every rename/unlink (i.e. at every prefix of the traced write / fsync / rename / dir-fsync sequence "
        "that can change the outcome) in three image variants: pessimistic (all un-synced renames and content "
        "dropped), pointer-eager (only the pointer's un-synced rename persisted), and seeded subsets (each pending "
        "directory operation independently persisted, un-synced content empty / prefix / full). Oracle per image: if "
        "the pointer parses and names version V, the independent reader reaches every file of V with full content "
        "(equal to the volatile bytes); at each acknowledgement the pessimistic image names the acknowledged version. "
        "Sampled images are materialised and opened with the real load_table().scan(). One evaluation = one image. "
        "Non-trivial = the image differs from both the initial and the final volatile state. Pre-built files are also handed over too early "
        "(missing / half written: append_files raises, the caller finishes the file and calls again on the same transaction).")
ASSUMPTIONS = common.BASE_ASSUMPTIONS + [
    "power-loss model: un-synced file content and un-synced directory operations may or may not persist; mkdir is durable; "
    "no filesystem-specific reordering beyond that",
    "bytes written by Arrow C++ are observed when the file is fsync'ed / renamed, not per write()",
    "S3 has no volatile state (a PUT acknowledgement is durable), so nothing is simulated there",
]
COMPONENTS = common.COMPONENTS
EXPECT_PROBES = ["image_pointer_advanced", "image_pointer_old", "ack_durable", "image_materialised", "subset_image"]

OPS = ["create", "append", "append_with", "append_explicit", "multi", "delete_file", "delete_file_append", "expire",
       "expire_append", "delete_snapshot", "gc0", "shared_threads", "shared_threads", "separate_handles",
       "files_append_raw", "files_append_raw_dir", "files_append_raw_twice", "files_append_raw_twice_flat",
       "files_append_raw_late", "files_append_raw_late_garbage"]


def gen(rng: random.Random, tier: str, idx: int) -> dict:
    name = OPS[idx % len(OPS)]
    setup: List[dict] = []
    if name != "create":
        for k in range(rng.randint(0, 3)):
            r = rng.random()
            if r < 0.7:
                setup.append({"kind": "append", "tag": f"s{k}", "n": rng.randint(1, 2)})
            elif r < 0.85:
                setup.append({"kind": "delete_file", "tag": f"s{k}", "k": 0, "with_append": True})
            else:
                setup.append({"kind": "multi", "tag": f"s{k}", "n": 1})
        if name.startswith("gc"):
            setup += [{"kind": "append", "tag": "sg", "n": 1}, {"kind": "delete_file", "tag": "sgd", "k": 0},
                      {"kind": "expire", "tag": "sge", "k": 99, "delta": 1}, {"kind": "sleep", "dt": 7200.0}]
    conc = None
    if name in ("shared_threads", "separate_handles"):
        conc = {"n": rng.randint(2, 3), "ops": rng.randint(1, 2), "p": rng.choice([0.02, 0.1, 0.3, 0.6]),
                "preempt_p": rng.choice([0, 0, 0.005, 0.03]) if name == "shared_threads" else 0,
                "kinds": [rng.choice(["append", "append", "multi", "delete_file_append"]) for _ in range(6)]}
    return {"backend": "local", "op": name, "setup": setup, "subsets": 2 if tier == "quick" else 8, "conc": conc,
            "materialise": tier != "quick" or idx % 5 == 0, "sub_seed": rng.randrange(1 << 30)}


def shrink(plan: dict):
    import copy
    for j in range(len(plan.get("setup", []))):
        p = copy.deepcopy(plan)
        del p["setup"][j]
        yield p


def _check_image(reader: ir.Reader, img: Dict[str, bytes], vol_root: str, label: str) -> Optional[str]:
    """None if fine, else a description of the dangling/partial reference."""
    view = ir.ImageView(img)
    try:
        ptr = reader.pointer(view)
    except Exception:
        ptr = None
    if ptr is None:
        return None     # pointer absent/unparseable in this image: nothing is promised (creation case)
    try:
        st = reader.state_of(view, ptr[1], ptr[0], deep=True, rows=True)
    except ir.IRError as e:
        return f"{label} image: the surviving pointer names {ptr[1]} but {e.kind} {e.path} ({len(img.get(e.path, b''))} bytes survive)"
    # full content: bytes in the image equal the volatile bytes for every reached file
    reach = st.reachable()
    for rel in sorted(reach["data"] | reach["manifests"] | reach["lists"] | {f"metadata/{ptr[1]}"}):
        try:
            with open(os.path.join(vol_root, rel), "rb") as f:
                vol = f.read()
        except OSError:
            continue
        if img.get(rel) != vol:
            return f"{label} image: {rel} reachable from the surviving pointer {ptr[1]} holds {len(img.get(rel, b''))} of {len(vol)} bytes"
    return None


def execute(plan: dict, scratch: str, replay: Optional[dict] = None) -> dict:
    from .c03 import op_under_test
    common.fresh_scratch(scratch)
    seed = plan.get("run_seed", 0)
    name = plan["op"]
    cfg = f"local/{name}"
    now = 0.0
    if name != "create":
        ph0 = common.run_setup(scratch, "local", seed, list(plan.get("setup", [])))
        now = ph0.sim.now
    conc = plan.get("conc")
    pol = core.RandomPolicy(seed ^ 0x16, conc["p"]) if conc else core.Policy()
    if conc and replay is not None:
        pol = core.ReplayPolicy(replay)
    ph = Phase(plan, scratch, "local", seed, pol, start=now + 1.0, max_steps=60000)
    w, sim = ph.world, ph.sim
    if conc and conc.get("preempt_p"):
        sim.extra["preempt_p"] = conc["preempt_p"]
        sim.max_steps = 300000
    os.makedirs(w.root, exist_ok=True)
    sh = Shadow(w.root)
    sh.arm()
    sim.extra["shadow"] = sh
    reader = ir.Reader()
    V: List[dict] = []
    stats = {"images": 0, "nontrivial": 0, "sigs": set()}
    rng = random.Random(plan.get("sub_seed", 0))
    init_ptr = reader.pointer(ir.LocalView(w.root))
    materialise: List[Dict[str, bytes]] = []

    def bad(clause, msg, ev):
        if not any(v["clause"] == clause for v in V):
            V.append({"clause": clause, "msg": f"[{cfg} after event {ev}] {msg}", "sig": f"{clause}|{name}"})

    nev = [0]

    def on_change(what: str, path: str):
        nev[0] += 1
        ev = f"{nev[0]}:{what}:{os.path.relpath(path, w.root)}"
        variants = [("pessimistic", None), ("pointer-eager", None)] + [("subset", rng)] * plan.get("subsets", 2)
        for var, r in variants:
            img = sh.image(var, r)
            stats["images"] += 1
            p = reader.pointer(ir.ImageView(img))
            if var == "subset":
                sim.probe("subset_image")
            if p != init_ptr:
                sim.probe("image_pointer_advanced")
            else:
                sim.probe("image_pointer_old")
            stats["sigs"].add(hashlib.sha1(repr((name, len(plan.get("setup", [])), nev[0], var, sorted(img))).encode()).hexdigest())
            err = _check_image(reader, img, w.root, var)
            if err:
                bad("U.pointer_outruns_data", err, ev)
            elif var != "subset" and plan.get("materialise") and p is not None and p != init_ptr and len(materialise) < 2:
                materialise.append(img)
    sh.on_change.append(on_change)

    def ack_check(rec):
        """at an acknowledgement the durable pointer must already name the acknowledged version (or a later one)"""
        if rec["outcome"] != "ok" or not rec.get("flips"):
            return
        mine = ir.parse_hint(w.flips[rec["flips"][-1]]["new"])
        img = sh.image("pessimistic")
        stats["images"] += 1
        durp = reader.pointer(ir.ImageView(img))
        if mine is not None and (durp is None or durp[0] < mine[0]):
            bad("U.ack_not_durable", f"{rec['actor']} {rec['op']['kind']} was acknowledged at version {mine[0]} but after a power "
                                     f"loss the pointer names {durp}", "ack")
        else:
            sim.probe("ack_durable")
        err = _check_image(reader, img, w.root, "pessimistic@ack")
        if err:
            bad("U.pointer_outruns_data", err, "ack")

    if conc:
        kinds = conc["kinds"]

        def mkops(i):
            out = []
            for j in range(conc["ops"]):
                k = kinds[(i * 2 + j) % len(kinds)]
                if k == "append":
                    out.append({"kind": "append", "tag": f"c{i}.{j}", "n": 1})
                elif k == "multi":
                    out.append({"kind": "multi", "tag": f"c{i}.{j}", "n": 1})
                else:
                    out.append({"kind": "delete_file", "tag": f"c{i}.{j}", "k": i, "with_append": True})
            return out

        def thread_body(ctx, ops):
            for op in ops:
                world.run_ops(ctx, [op])
                mine = [h for h in w.history if h["actor"] == ctx.name]
                ack_check(mine[-1])
        if name == "shared_threads":
            p0 = sim.proc("p0")
            root_ctx = world.Ctx(w, "p0", lambda: w.open_table(create=False))

            def init():
                root_ctx.table
                for i in range(conc["n"]):
                    c2 = world.Ctx(w, f"t{i}", lambda: root_ctx.table)
                    c2._table = root_ctx._table
                    sim.spawn(p0, f"t{i}", lambda c2=c2, i=i: thread_body(c2, mkops(i)))
            sim.spawn(p0, "p0/init", init)
        else:
            for i in range(conc["n"]):
                c2 = world.Ctx(w, f"t{i}", lambda: w.open_table(create=False))
                sim.spawn(sim.proc(f"p{i}"), f"t{i}", lambda c2=c2, i=i: thread_body(c2, mkops(i)))

    def body():
        if name == "create":
            ctx = world.Ctx(w, "ut", lambda: w.open_table(create=True))
            world.run_ops(ctx, [{"kind": "open"}])
        else:
            ctx = world.Ctx(w, "ut", lambda: w.open_table(create=False))
            world.run_ops(ctx, [op_under_test(name)])
        rec = w.history[-1]
        # acknowledgement: the pessimistic image must already name the acknowledged version
        if rec["outcome"] == "ok":
            img = sh.image("pessimistic")
            stats["images"] += 1
            volp = reader.pointer(ir.LocalView(w.root))
            durp = reader.pointer(ir.ImageView(img))
            if volp != durp:
                bad("U.ack_not_durable", f"{name} was acknowledged with the pointer naming {volp} but after a power loss the "
                                         f"pointer names {durp}", "ack")
            else:
                sim.probe("ack_durable")
            err = _check_image(reader, img, w.root, "pessimistic@ack")
            if err:
                bad("U.pointer_outruns_data", err, "ack")
    if not conc:
        sim.spawn(sim.proc("p0"), "ut", body)
    ph.run()
    sim.extra.pop("shadow", None)
    if sim.outcome == "ok":
        rec = w.history[-1] if w.history else None
        if not conc and rec is not None and rec["outcome"] != "ok":
            raise core.HarnessError(f"op under test failed: {rec.get('exc')} {rec.get('msg')}")
        # materialise sampled images and read them with the real library (harness thread, no seams)
        for i, img in enumerate(materialise):
            d = os.path.join(scratch, f"img{i}")
            shutil.rmtree(d, ignore_errors=True)
            for rel, data in img.items():
                p = os.path.join(d, rel)
                os.makedirs(os.path.dirname(p), exist_ok=True)
                with open(p, "wb") as f:
                    f.write(data)
            try:
                import datashard
                os.environ["DATASHARD_STORAGE_TYPE"] = "local"
                t = datashard.load_table(d)
                got = tuple(sorted((ir.row_key(r) for r in t.scan()), key=repr))
                st = reader.state(ir.ImageView(img))
                if st is not None and got != st.current_rows():
                    bad("U.materialised_scan_differs", "library scan of a materialised power-loss image differs from the independent reader", "img")
                sim.probe("image_materialised")
            except Exception as e:
                bad("U.materialised_unreadable", f"a materialised power-loss image cannot be read by the library: {e!r}"[:300], "img")
    else:
        V = []
    res = common.assemble(ph, V, True, cfg, {"op": name, "setup": [o["kind"] for o in plan.get("setup", [])],
                                             "events": nev[0], "images": stats["images"], "shadow": sh.stats})
    res["deviations"] = dict(sim.deviations)
    res["evaluations"] = max(1, stats["images"])
    res["sched_sigs"] = sorted(stats["sigs"])
    res["nontrivial_sigs"] = sorted(stats["sigs"])
    w.cleanup()
    return res
