"""C11 (minor, nested / boundary value classes), all accepted silently:
 a) list<timestamp> / list<date> element out of Python's range: accepted (bounds are skipped for lists,
    so the accidental as_py() check that rejects the same value in a top-level column never runs) and
    every later scan raises OverflowError in to_pylist().
 b) a str supplied for a list<string> column is stored as a list of its characters.
 c) float column: the double 3.4028235677973366e38 passes the `abs(value) > float32_max` test
    (data_operations.py:531,561 - the constant is the rounding midpoint, not FLT_MAX) and is stored as inf.
 d) `time` column: int 10**12 (11.5 days of microseconds) is accepted and read back wrapped as 13:46:40.
 e) bool into double is stored as 1.0 (int and boolean columns reject the cross-type value)."""
import sys
from _common import newpath, finish
from datashard import create_table, load_table
from datashard.data_structures import Schema

bad = []
def case(ftype, value, label):
    p = newpath()
    t = create_table(p, Schema(1, [{"id": 1, "name": "k", "type": "long", "required": True}, {"id": 2, "name": "x", "type": ftype}]))
    try:
        t.append_records([{"k": 1, "x": value}])
    except Exception as e:
        print(f"ok   {label}: rejected ({type(e).__name__})"); return
    try:
        got = load_table(p).scan()[0]["x"]
    except Exception as e:
        bad.append(label); print(f"DEFECT {label}: accepted, every scan now fails: {type(e).__name__}: {e}"); return
    if got != value or type(got) is not type(value):
        bad.append(label); print(f"DEFECT {label}: supplied {value!r} -> scan returns {got!r}")
    else:
        print(f"ok   {label}")
case("timestamp", 10**18, "10**18 into timestamp (control: rejected by accident in bounds)")
case({"type": "list<timestamp>"}, [10**18], "a) [10**18] into list<timestamp>")
case({"type": "list<date>"}, [10**8], "a) [10**8] into list<date>")
case({"type": "list<string>"}, "ab", "b) 'ab' into list<string>")
case("float", 3.4028235677973366e38, "c) 3.4028235677973366e38 into float")
case("time", 10**12, "d) 10**12 into time")
case("double", True, "e) True into double")
finish(1 if bad else 0)
