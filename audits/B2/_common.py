import os, sys, tempfile, shutil, logging, atexit
logging.disable(logging.CRITICAL)
_base = tempfile.mkdtemp(prefix="b2_", dir="/dev/shm" if os.path.isdir("/dev/shm") else None)
atexit.register(lambda: shutil.rmtree(_base, ignore_errors=True))
_n = [0]
def newpath():
    _n[0] += 1
    return os.path.join(_base, "t%d" % _n[0])

def finish(code):
    """Deterministic exit code (pyarrow worker threads can abort the interpreter at normal shutdown)."""
    sys.stdout.flush(); sys.stderr.flush()
    shutil.rmtree(_base, ignore_errors=True)
    os._exit(int(code))
