"""C11: DataFileManager.create_arrow_schema caches the Arrow schema by schema_id only
(data_operations.py:446-447, 466). On a table without a persisted schema (create_table(path) - the
mode whose warning tells callers to "pass schema= explicitly") a REUSED handle that appends with a
second schema carrying the same schema_id (README uses schema_id=1 everywhere) validates the records
against the new schema but writes them with the cached Arrow schema of the first one: the new column
is silently dropped. (A fresh handle writes the new column instead.)"""
import sys
from _common import newpath, finish
from datashard import create_table, load_table
from datashard.data_structures import Schema

A = Schema(1, [{"id": 1, "name": "id", "type": "long", "required": True}, {"id": 2, "name": "name", "type": "string"}])
B = Schema(1, [{"id": 1, "name": "id", "type": "long", "required": True}, {"id": 2, "name": "name", "type": "string"},
               {"id": 3, "name": "email", "type": "string"}])
p = newpath(); t = create_table(p)
t.append_records([{"id": 1, "name": "a"}], schema=A)
rec = {"id": 2, "name": "b", "email": "b@x"}
t.append_records([rec], schema=B)          # accepted
rows = load_table(p).scan()
print(rows)
if rec not in rows:
    print("DEFECT: accepted row", rec, "is returned as", [r for r in rows if r["id"] == 2][0])
    finish(1)
finish(0)
