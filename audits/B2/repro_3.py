"""C11 (mis-filter): an accepted append containing NaN makes a later `!=` scan drop the NaN row.
_compute_column_bounds uses pc.min/pc.max, which skip NaN (data_operations.py:667-676), so a file
holding [1.0, NaN] gets lower==upper==1.0 and filters._file_may_match prunes it for ("!=", 1.0)
(filters.py:285-288) although the row engine itself evaluates NaN != 1.0 as true (and returns that
row whenever the file is not pruned, and `not_in [1.0]` returns it too)."""
import sys
from _common import newpath, finish
from datashard import create_table, load_table
from datashard.data_structures import Schema

S = Schema(1, [{"id": 1, "name": "k", "type": "long", "required": True}, {"id": 2, "name": "x", "type": "double"}])
nan = float("nan")
# table A: NaN shares a file with 1.0 only  -> file pruned
a = create_table(newpath(), S); a.append_records([{"k": 1, "x": 1.0}, {"k": 2, "x": nan}])
# table B: same rows + 2.0 in the same file -> bounds [1.0, 2.0], not pruned: shows the engine's own answer
b = create_table(newpath(), S); b.append_records([{"k": 1, "x": 1.0}, {"k": 2, "x": nan}, {"k": 3, "x": 2.0}])
ra = sorted(r["k"] for r in a.scan(filter={"x": ("!=", 1.0)}))
rb = sorted(r["k"] for r in b.scan(filter={"x": ("!=", 1.0)}))
rn = sorted(r["k"] for r in a.scan(filter={"x": ("not_in", [1.0])}))
print("bounds A:", [(d.lower_bounds, d.upper_bounds) for d in a._get_all_data_files()])
print("A  x != 1.0      ->", ra)
print("A  x not_in [1.0]->", rn)
print("B  x != 1.0      ->", rb, "(same rows + one more in the same file)")
bad = 0
if 2 in rb and 2 not in ra:
    print("DEFECT a: row k=2 (x=NaN) matches `!= 1.0` in B but is dropped from A by bound pruning"); bad = 1
# second instance: 32-bit float column. 0.1 is stored as float32(0.1)=0.10000000149; bounds keep that
# double; `in [0.1]` matches the row in the row engine (value set cast to float32) but pruning compares
# the Python double 0.1 against the bounds (filters.py:314-321) and drops the file.
F = Schema(1, [{"id": 1, "name": "k", "type": "long", "required": True}, {"id": 2, "name": "x", "type": "float"}])
c = create_table(newpath(), F); c.append_records([{"k": 1, "x": 0.1}])
d = create_table(newpath(), F); d.append_records([{"k": 1, "x": 0.1}, {"k": 2, "x": -5.0}, {"k": 3, "x": 5.0}])
rc = [r["k"] for r in c.scan(filter={"x": ("in", [0.1])})]
rd = [r["k"] for r in d.scan(filter={"x": ("in", [0.1])})]
print("C  float x in [0.1] (file holds only 0.1)        ->", rc)
print("D  float x in [0.1] (same row + -5.0, 5.0 in file) ->", rd)
if 1 in rd and 1 not in rc:
    print("DEFECT b: row k=1 matches `in [0.1]` in D but is pruned away in C"); bad = 1
finish(bad)
