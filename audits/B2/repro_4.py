"""C11 / C18 (creation racing a first append): an append prepared through a handle opened before the
table exists (Table(path, create_if_not_exists=False)) is validated against "no schema", a creator
then initialises the table WITH a schema, and the pending commit succeeds - a divergent file is now
part of a table that has a persisted schema and every later scan fails.
The table schema is only consulted in append_data()/append_files() (transaction.py:234-236, 260-280,
102/113) - commit() (transaction.py:419-447) never re-validates, and append_data() on an
uninitialised table does not raise."""
import sys
from _common import newpath, finish
from datashard import create_table, load_table
from datashard.transaction import Table
from datashard.data_structures import Schema

S = Schema(1, [{"id": 1, "name": "k", "type": "long", "required": True}])
D = Schema(1, [{"id": 1, "name": "a", "type": "string"}])
p = newpath()
h = Table(p, create_if_not_exists=False)            # opener: table does not exist yet
tx = h.new_transaction().begin()
tx.append_data([{"a": "x"}], schema=D)              # accepted: "no persisted schema: nothing to enforce"
c = create_table(p, S); c.append_records([{"k": 1}])  # creator wins, schema S persisted, one row
ok = tx.commit()                                    # first append of the opener lands on S-table
print("commit of the divergent append returned", ok)
print("persisted schema:", load_table(p)._get_current_schema().fields)
try:
    print(load_table(p).scan()); finish(0)
except Exception as e:
    print("DEFECT: accepted append bricked scans:", type(e).__name__, str(e).replace("\n", " ")[:160])
    finish(1)
