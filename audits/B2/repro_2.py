"""C11: temporal values the declared type cannot represent are silently altered.
 - datetime into a `date` column: time of day dropped
 - tz-aware datetime into `timestamp` (without zone): shifted to UTC, zone dropped
 - float epoch (time.time()) into `timestamp`/`time`/`date`: fraction truncated (and read as microseconds/days)
validate_records_strict (data_operations.py:505-566) has no temporal checks; pyarrow converts silently."""
import sys, datetime as dt
from _common import newpath, finish
from datashard import create_table, load_table
from datashard.data_structures import Schema

bad = []
def case(ftype, value, label):
    p = newpath()
    s = Schema(1, [{"id": 1, "name": "k", "type": "long", "required": True},
                   {"id": 2, "name": "x", "type": ftype}])
    t = create_table(p, s)
    try:
        t.append_records([{"k": 1, "x": value}])
    except Exception as e:
        print(f"ok   {label}: rejected ({type(e).__name__})"); return
    got = load_table(p).scan()[0]["x"]
    try: same = (got == value)
    except TypeError: same = False
    if not same:
        bad.append(label); print(f"DEFECT {label}: supplied {value!r} -> accepted, scan returns {got!r}")
    else:
        print(f"ok   {label}: exact")

tz = dt.timezone(dt.timedelta(hours=5))
case("date", dt.date(2024, 3, 1), "date into date (control)")
case("date", dt.datetime(2024, 3, 1, 23, 59, 58), "datetime 23:59:58 into date")
case("timestamp", dt.datetime(2024, 3, 1, 12, 0, tzinfo=tz), "aware datetime 12:00+05:00 into timestamp")
case("timestamp", 1700000000.75, "float epoch seconds 1700000000.75 into timestamp")
case("time", 1.9, "float 1.9 into time")
case("date", 19000.9, "float 19000.9 into date")
finish(1 if bad else 0)
