"""C11: pre-built DataFile whose file_format is not parquet (FileFormat.AVRO / FileFormat.ORC, both
advertised "Supported file formats") is accepted without any check on a table WITH a persisted schema
(transaction.py:150-153 returns early), and every later scan fails because the read path opens every
data file as parquet (transaction.py:985/997). Variant: file_format="PARQUET" (str, tolerated by
transaction.py:151 and file_manager.py:229) passes the schema check and is stored verbatim, after which
the manifest itself cannot be read (FileFormat("PARQUET") ValueError, file_manager.py:316)."""
import sys, os
import pyarrow as pa, pyarrow.parquet as pq
from _common import newpath, finish
from datashard import create_table, load_table
from datashard.data_structures import Schema, DataFile, FileFormat

S = Schema(1, [{"id": 1, "name": "k", "type": "long", "required": True}])
bad = 0
for fmt, fname in ((FileFormat.ORC, "pre.orc"), (FileFormat.AVRO, "pre.avro"), ("PARQUET", "pre.parquet")):
    p = newpath(); t = create_table(p, S); t.append_records([{"k": 1}])
    tbl = pa.table({"k": pa.array([5], pa.int64())}, schema=pa.schema([pa.field("k", pa.int64(), nullable=False)]))
    if fname.endswith("orc"):
        from pyarrow import orc; orc.write_table(tbl, os.path.join(p, "data", fname))
    elif fname.endswith("avro"):
        import fastavro
        with open(os.path.join(p, "data", fname), "wb") as f:
            fastavro.writer(f, {"type": "record", "name": "r", "fields": [{"name": "k", "type": "long"}]}, [{"k": 5}])
    else:
        pq.write_table(tbl, os.path.join(p, "data", fname))
    df = DataFile(file_path="/data/" + fname, file_format=fmt, partition_values={}, record_count=1,
                  file_size_in_bytes=os.path.getsize(os.path.join(p, "data", fname)))
    try:
        with t.new_transaction() as tx:
            tx.append_files([df]); tx.commit()
    except Exception as e:
        print(f"ok   {fmt}: rejected ({type(e).__name__})"); continue
    try:
        rows = load_table(p).scan(); print(f"ok   {fmt}: scan -> {rows}")
    except Exception as e:
        bad += 1; print(f"DEFECT {fmt}: append accepted, scan now fails: {type(e).__name__}: {str(e)[:110]}")
finish(1 if bad else 0)
