"""C11: fractional non-float numerics (Decimal), floats inside nested lists and floats into a
dict-typed integer column are silently TRUNCATED into int/long columns instead of rejected.
validate_records_strict only tests `isinstance(value, float)` on top-level fields whose type is the
*string* "int"/"long" (data_operations.py:525-553)."""
import sys, decimal
from _common import newpath, finish
from datashard import create_table, load_table
from datashard.data_structures import Schema

bad = []
def case(ftype, value, label):
    p = newpath()
    s = Schema(1, [{"id": 1, "name": "k", "type": "long", "required": True},
                   {"id": 2, "name": "x", "type": ftype}])
    t = create_table(p, s)
    try:
        t.append_records([{"k": 1, "x": value}])
    except Exception as e:
        print(f"ok   {label}: rejected ({type(e).__name__})"); return
    got = load_table(p).scan()[0]["x"]
    if got != value:
        bad.append(label); print(f"DEFECT {label}: supplied {value!r} -> accepted, scan returns {got!r}")
    else:
        print(f"ok   {label}: exact")

case("long", 1.5, "float 1.5 into long (control, must be rejected)")
case("long", decimal.Decimal("7.9"), "Decimal('7.9') into long")
case("int", decimal.Decimal("-0.5"), "Decimal('-0.5') into int")
case({"type": "list<long>"}, [1.5, 2.9], "[1.5, 2.9] into list<long>")
case({"type": "long"}, 1.5, "float 1.5 into {'type':'long'}")
finish(1 if bad else 0)
