"""787d8c3: value sets of IN / NOT_IN after parse_filter_dict.
 - generator / iterator / dict view / range / map: materialised, every file sees them (OK);
 - a dict is deliberately left alone by the new isinstance test, but _as_float32() leaves a dict
   alone too ("not isinstance(value, (str, bytes, dict))"), while _file_may_match() and the
   row-level expression iterate its KEYS: on a 32-bit float column the keys are compared unrounded
   against float32 bounds and the file holding exactly the value asked for is pruned away,
   although the row-level engine matches it.  list / set / generator of the same values find it."""
import sys, shutil, tempfile, logging
logging.disable(logging.CRITICAL)
from datashard import create_table, Schema

SCHEMA = Schema(schema_id=1, fields=[
    {"id": 1, "name": "k", "type": "long", "required": False},
    {"id": 2, "name": "f", "type": "float", "required": False},
])
d = tempfile.mkdtemp(dir="/dev/shm", prefix="b11f_")
t = create_table(d, SCHEMA)
t.append_records([{"k": 1, "f": 0.1}])
t.append_records([{"k": 2, "f": 0.1}])          # second file: one-shot iterables used to be empty here
t.append_records([{"k": 3, "f": 7.5}])

def rows(value):
    return sorted(r["k"] for r in t.scan(filter={"f": ("in", value)}))

bad = 0
cases = [
    ("list", [0.1]), ("set", {0.1}), ("generator", (v for v in [0.1])), ("iter", iter([0.1])),
    ("map", map(float, ["0.1"])), ("dict keys view", {0.1: None}.keys()),
    ("dict", {0.1: None}),
]
for label, value in cases:
    try:
        got = rows(value)
    except Exception as e:
        got = f"{type(e).__name__}: {e}"
    ok = got == [1, 2]
    print(f"IN {label:15s} -> k = {got}{'' if ok else '   <-- expected [1, 2]'}")
    bad += (not ok)

# long column: generators on several files, NOT_IN
for label, value in (("generator", (v for v in [1, 2])), ("range", range(1, 3))):
    got = sorted(r["k"] for r in t.scan(filter={"k": ("not_in", value)}))
    print(f"NOT_IN {label:11s} -> k = {got}")
    bad += (got != [3])
shutil.rmtree(d)
sys.exit(1 if bad else 0)
