"""a5aab9a: what is_permanent_s3_error still mis-classifies / how it behaves on odd shapes."""
import sys, logging
logging.disable(logging.CRITICAL)
import botocore.exceptions as bx
from botocore.exceptions import ClientError
from datashard.s3_consistency import is_permanent_s3_error, _PERMANENT_SDK_ERROR_NAMES, with_s3_retry
import datashard.s3_consistency as sc
sc.time.sleep = lambda s: None

missing = [n for n in _PERMANENT_SDK_ERROR_NAMES if not hasattr(bx, n)]
print("listed SDK names that do not exist in botocore:", missing)

def ce(code, status, meta=True):
    r = {"Error": ({"Code": code} if code is not None else {})}
    if meta:
        r["ResponseMetadata"] = {"HTTPStatusCode": status}
    return ClientError(r, "PutObject")

bad = 0
rows = [
    # (label, exception, expected_permanent)
    ("BadDigest 400", ce("BadDigest", 400), False),
    ("XAmzContentChecksumMismatch 400 (MinIO & co: CRC trailer of boto3>=1.36 damaged in transit)", ce("XAmzContentChecksumMismatch", 400), False),
    ("400 without Error.Code", ce(None, 400), True),
    ("code '400' (HEAD)", ce("400", 400), True),
    ("AccessDenied, no ResponseMetadata", ce("AccessDenied", 0, meta=False), True),
    ("InvalidArgument, no ResponseMetadata", ce("InvalidArgument", 0, meta=False), True),
    ("PreconditionFailed 412", ce("PreconditionFailed", 412), True),
    ("InvalidRange 416", ce("InvalidRange", 416), True),
    ("SlowDown 503", ce("SlowDown", 503), False),
    ("FlexibleChecksumError", bx.FlexibleChecksumError(error_msg="x"), False),
    ("CredentialRetrievalError", bx.CredentialRetrievalError(provider="p", error_msg="x"), False),
    ("NoCredentialsError", bx.NoCredentialsError(), True),
    ("ParamValidationError", bx.ParamValidationError(report="x"), True),
    ("EndpointResolutionError (bad endpoint rules input)", bx.EndpointResolutionError(msg="x"), True),
    ("UnknownSignatureVersionError", bx.UnknownSignatureVersionError(signature_version="v9"), True),
]
for label, exc, want in rows:
    got = is_permanent_s3_error(exc)
    flag = "" if got == want else "   <-- differs from expectation"
    print(f"{label:95s} permanent={got}{flag}")

# the one that matters for the commit's own goal
if is_permanent_s3_error(ce("XAmzContentChecksumMismatch", 400)):
    calls = []
    def put():
        calls.append(1)
        if len(calls) == 1:
            raise ce("XAmzContentChecksumMismatch", 400)
        return "ok"
    try:
        print("retry result:", with_s3_retry(put, "put"))
    except ClientError as e:
        print("PROBLEM: damaged-body answer XAmzContentChecksumMismatch not retried, attempts =", len(calls))
        bad += 1

# odd shapes must not blow up inside the retry loop's except-handler
for label, resp in (("Error: None", {"Error": None, "ResponseMetadata": {"HTTPStatusCode": 500}}),
                    ("ResponseMetadata: None", {"Error": {"Code": "X"}, "ResponseMetadata": None})):
    e = ClientError({"Error": {"Code": "X"}}, "op"); e.response = resp
    try:
        print(f"shape {label}: permanent={is_permanent_s3_error(e)}")
    except Exception as ex:
        print(f"shape {label}: is_permanent_s3_error itself raised {type(ex).__name__}: {ex}")
sys.exit(1 if bad else 0)
