"""Tiny in-memory fake of the boto3 S3 client (only what S3StorageBackend.open_file needs)."""
import hashlib, io, time
import boto3, boto3.session
from botocore.exceptions import ClientError
from botocore.response import StreamingBody


def client_error(code, status, op="GetObject"):
    return ClientError({"Error": {"Code": code, "Message": code},
                        "ResponseMetadata": {"HTTPStatusCode": status}}, op)


class FakeS3:
    def __init__(self, honour_if_match=True, send_etag=True):
        self.objects = {}
        self.honour_if_match = honour_if_match
        self.send_etag = send_etag
        self.calls = []
        self.body_factory = None     # (key, data, kwargs, nth_get) -> Body

    def put_object(self, Bucket, Key, Body, **kw):
        self.objects[Key] = bytes(Body)
        return {"ETag": self._etag(Key)}

    def _etag(self, key):
        return '"%s"' % hashlib.md5(self.objects[key]).hexdigest()

    def get_object(self, Bucket, Key, **kw):
        self.calls.append(("get_object", Key, dict(kw)))
        if Key not in self.objects:
            raise client_error("NoSuchKey", 404)
        data = self.objects[Key]
        if self.honour_if_match and "IfMatch" in kw and kw["IfMatch"] != self._etag(Key):
            raise client_error("PreconditionFailed", 412)
        start = 0
        if "Range" in kw:
            start = int(kw["Range"].split("=")[1].split("-")[0])
            if start >= len(data):
                raise client_error("InvalidRange", 416)
        part = data[start:]
        n = sum(1 for c in self.calls if c[0] == "get_object" and c[1] == Key)
        body = self.body_factory(Key, part, kw, n) if self.body_factory else StreamingBody(io.BytesIO(part), len(part))
        resp = {"Body": body, "ContentLength": len(part),
                "ResponseMetadata": {"HTTPStatusCode": 206 if "Range" in kw else 200}}
        if self.send_etag:
            resp["ETag"] = self._etag(Key)
        return resp

    def head_object(self, Bucket, Key, **kw):
        if Key not in self.objects:
            raise client_error("404", 404, "HeadObject")
        return {"ContentLength": len(self.objects[Key]), "ETag": self._etag(Key), "LastModified": time.time()}


def install(fake):
    boto3.client = lambda *a, **k: fake
    boto3.session.Session.client = lambda self, *a, **k: fake
    import datashard.s3_consistency as sc
    sc.time.sleep = lambda s: None          # no real back-off sleeps
    from datashard.storage_backend import S3StorageBackend
    return S3StorageBackend(bucket="b")
