"""7e7ea08: "read() only masks transport errors (BotoCoreError / OSError)".
BotoCoreError is far wider than transport errors. botocore's own end-of-stream verification of the
response checksum (StreamingChecksumBody -> FlexibleChecksumError, a BotoCoreError; GetObject asks
for it by default since boto3 1.36) is raised by the LAST read(n) of a chunked read. S3FileStream
catches it, _resume() sees pos >= size and answers b"": the damaged body is delivered as if it were
fine (compute_checksum_from_stream -> DataFile.checksum of content that never existed)."""
import io, sys, base64, logging
logging.disable(logging.CRITICAL)
import fake_s3
from botocore.httpchecksum import StreamingChecksumBody, Crc32Checksum
from datashard.integrity import IntegrityChecker

good = b"A" * 20000
damaged = good[:10000] + b"B" + good[10001:]          # one byte flipped in transit
crc = Crc32Checksum(); crc.update(good); expected = crc.b64digest()

fake = fake_s3.FakeS3()
backend = fake_s3.install(fake)
fake.objects["f.parquet"] = good
# first GET: body damaged in transit, botocore verifies x-amz-checksum-crc32 at end of stream
fake.body_factory = lambda key, part, kw, n: StreamingChecksumBody(
    io.BytesIO(damaged if n == 1 else part), len(part), Crc32Checksum(), expected) if "Range" not in kw \
    else fake_s3.StreamingBody(io.BytesIO(part), len(part))

try:
    with backend.open_file("f.parquet") as s:
        got = IntegrityChecker.compute_checksum_from_stream(s)      # read(8192) loop
except Exception as e:
    print("raised (good):", type(e).__name__, e)
    sys.exit(0)
want = IntegrityChecker.compute_checksum(good)
print("checksum of stream :", got[:16])
print("checksum of object :", want[:16])
print("GETs:", [c[2] for c in fake.calls])
if got != want:
    print("PROBLEM: botocore detected the damaged body (FlexibleChecksumError) and S3FileStream swallowed it")
    sys.exit(1)
