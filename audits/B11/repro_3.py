"""7e7ea08 narrowed `except Exception` to `except (BotoCoreError, OSError)`.
A TLS failure while the body streams (bad record MAC, unexpected EOF inside a TLS record ...) is
turned by urllib3 into urllib3.exceptions.SSLError - an HTTPError, neither OSError nor
BotoCoreError - and botocore's StreamingBody.read() wraps only ReadTimeoutError / ProtocolError.
Before the commit such a read resumed; now it fails the manifest / checksum read (and
with_s3_retry does not know the class either).  Real urllib3 + real botocore classes below."""
import io, ssl, sys, logging
logging.disable(logging.CRITICAL)
import fake_s3
from urllib3.response import HTTPResponse
from botocore.response import StreamingBody

data = bytes(range(256)) * 100


class BrokenTLS(io.BytesIO):
    """socket file object of a TLS connection that breaks after 8 KiB"""
    def read(self, n=-1):
        if self.tell() >= 8192:
            raise ssl.SSLError(1, "[SSL: DECRYPTION_FAILED_OR_BAD_RECORD_MAC] decryption failed or bad record mac")
        return super().read(n)
    read1 = read
    def readinto(self, b):
        chunk = self.read(len(b)); b[:len(chunk)] = chunk; return len(chunk)


def body(key, part, kw, n):
    raw = BrokenTLS(part) if n == 1 else io.BytesIO(part)
    return StreamingBody(HTTPResponse(body=raw, preload_content=False, headers={"content-length": str(len(part))}), len(part))


fake = fake_s3.FakeS3()
backend = fake_s3.install(fake)
fake.objects["m.avro"] = data
fake.body_factory = body
try:
    with backend.open_file("m.avro") as s:
        out = b""
        while True:
            c = s.read(4096)
            if not c:
                break
            out += c
except Exception as e:
    print("PROBLEM: read failed instead of resuming:", type(e).__module__ + "." + type(e).__name__, "-", e)
    print("GETs:", [c[2] for c in fake.calls])
    sys.exit(1)
print("resumed fine:", out == data, [c[2] for c in fake.calls])
