"""7e7ea08: the version pin is only the If-Match REQUEST header.
 (1) provider that ignores If-Match on GET (several S3-compatibles do): the overwritten object is
     still spliced into the stream although the ranged answer carries a DIFFERENT ETag that is
     never looked at;
 (2) first answer without ETag (some gateways / proxies): no pin at all, silent splice as before.
Expected in both cases: an error, not bytes of two versions."""
import io, sys, logging
logging.disable(logging.CRITICAL)
import fake_s3
from botocore.response import StreamingBody
from botocore.exceptions import ReadTimeoutError

V1 = b"1" * 20000
V2 = b"2" * 20000


class Breaks(io.BytesIO):
    def read(self, n=-1):
        if self.tell() >= 8192:
            raise ReadTimeoutError(endpoint_url="http://s3")
        return super().read(n)


def run(label, **fake_kw):
    fake = fake_s3.FakeS3(**fake_kw)
    backend = fake_s3.install(fake)
    fake.objects["f"] = V1

    def body(key, part, kw, n):
        if n == 1:
            return Breaks(part)          # breaks after 8 KiB ...
        return StreamingBody(io.BytesIO(part), len(part))
    fake.body_factory = body
    try:
        with backend.open_file("f") as s:
            out = s.read(8192)
            fake.objects["f"] = V2       # ... the object is overwritten meanwhile
            while True:
                c = s.read(8192)
                if not c:
                    break
                out += c
    except Exception as e:
        print(f"{label}: raised {type(e).__name__} (good)")
        return 0
    spliced = out not in (V1, V2)
    print(f"{label}: no error; spliced={spliced} ({out.count(b'1')} bytes of v1 + {out.count(b'2')} bytes of v2); GETs={[c[2] for c in fake.calls]}")
    return 1 if spliced else 0


bad = 0
bad += run("control: provider honours If-Match", honour_if_match=True, send_etag=True)
bad += run("(1) provider ignores If-Match on GET", honour_if_match=False, send_etag=True)
bad += run("(2) first answer carries no ETag", honour_if_match=True, send_etag=False)
sys.exit(1 if bad else 0)
