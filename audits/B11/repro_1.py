"""b820994: marker matrix on the local backend.
Shows (a) a fresh, TRUE legacy payload-less marker whose data file is not there (yet / any more)
now aborts every collection until the marker is 24 h old (before the commit: collection ran);
(b) an emptied legacy-named marker of a file in a sub-directory still loses its protection when a
file of the same basename sits directly in data/ (the live transaction's file is deleted);
(c) an error of storage.exists() on the fallback escapes as a raw exception (not
GarbageCollectionAborted), also for an ABANDONED marker that only needs removing."""
import os, sys, time, shutil, tempfile, json, logging
logging.disable(logging.CRITICAL)
from datashard import create_table, Schema
from datashard.garbage_collector import GarbageCollector, GarbageCollectionAborted

SCHEMA = Schema(schema_id=1, fields=[{"id": 1, "name": "a", "type": "long", "required": False}])
OLD = time.time() - 3 * 3600          # older than the 1 h grace period
ANCIENT = time.time() - 30 * 3600     # older than the 24 h abandonment

def fresh_table():
    d = tempfile.mkdtemp(dir="/dev/shm", prefix="b11_")
    t = create_table(d, SCHEMA)
    t.append_records([{"a": 1}])
    os.makedirs(os.path.join(d, "metadata/inflight"), exist_ok=True)
    return d, t

def put(d, rel, content=b"x", mtime=None):
    p = os.path.join(d, rel)
    os.makedirs(os.path.dirname(p), exist_ok=True)
    with open(p, "wb") as f:
        f.write(content)
    if mtime:
        os.utime(p, (mtime, mtime))

def gc(t):
    try:
        return t.garbage_collect()
    except GarbageCollectionAborted as e:
        return "ABORTED"
    except Exception as e:
        return f"RAW {type(e).__name__}: {e}"

bad = 0

# (a) true legacy marker, fresh, no payload, data file not written yet / writer died before writing it
d, t = fresh_table()
put(d, "metadata/inflight/batch-7.parquet.inflight", b"")
put(d, "data/orphan.parquet", mtime=OLD)
r = gc(t)
print("(a) fresh legacy empty marker, file absent ->", r, "| orphan still there:", os.path.exists(d + "/data/orphan.parquet"))
if r == "ABORTED":
    bad += 1
shutil.rmtree(d)

# (b) emptied legacy-named marker of data/p=2/part-0.parquet while data/part-0.parquet exists
d, t = fresh_table()
put(d, "data/part-0.parquet", mtime=OLD)              # any file of that basename directly in data/
put(d, "data/p=2/part-0.parquet", mtime=OLD)          # the live transaction's file
put(d, "metadata/inflight/part-0.parquet.inflight", b"")   # its marker, emptied (damaged), FRESH
r = gc(t)
alive = os.path.exists(d + "/data/p=2/part-0.parquet")
print("(b) emptied marker of data/p=2/part-0.parquet, data/part-0.parquet exists ->", r, "| live file survives:", alive)
if not alive:
    bad += 1
shutil.rmtree(d)

# (c) exists() failing on the fallback: raw exception, also for an abandoned marker
d, t = fresh_table()
put(d, "metadata/inflight/old.parquet.inflight", b"", mtime=ANCIENT)
orig = type(t.storage).exists
def flaky(self, path):
    if path == "data/old.parquet":
        raise PermissionError(13, "EACCES", path)
    return orig(self, path)
type(t.storage).exists = flaky
r = gc(t)
type(t.storage).exists = orig
print("(c) abandoned empty legacy marker, exists() raises ->", r, "| marker removed:", not os.path.exists(d + "/metadata/inflight/old.parquet.inflight"))
if isinstance(r, str) and r.startswith("RAW"):
    bad += 1
shutil.rmtree(d)

sys.exit(1 if bad else 0)
