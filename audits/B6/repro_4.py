"""d43d43e: 'a live transaction's file must not be deleted on a guess: fail closed'.
A LIVE marker with the new name format (<basename>.<hex8>.inflight) whose payload is
empty is taken for a legacy marker: the guess 'data/<basename>.<hex8>' protects
nothing and the collection goes on and deletes the file (any other unreadable
payload aborts)."""
import sys, time
from common import *
from datashard.garbage_collector import GarbageCollector, GarbageCollectionAborted
d = newdir(); t = create_table(d + "/t", schema=SCHEMA); t.append_records([{"x": 0}]); root = t.table_path
f = prebuilt(root, "data/p=1/n.parquet")
ts = time.time() - 7200; os.utime(root + "/data/p=1/n.parquet", (ts, ts))
tx = t.new_transaction().begin(); tx.append_files([f])
marker = os.path.join(root, tx._inflight_markers[0])
open(marker, "wb").close()                 # damaged: zero-length, still fresh
try:
    GarbageCollector(root, t.metadata_manager, t.file_manager).collect(grace_period_ms=0)
except GarbageCollectionAborted as e:
    print("aborted (fail closed):", str(e)[:70]); sys.exit(0)
alive = os.path.exists(root + "/data/p=1/n.parquet")
print("file of the open transaction still there:", alive)
if not alive:
    try: tx.commit()
    except Exception as e: print("commit then fails:", type(e).__name__, str(e)[:60])
    print("PROBLEM: unreadable live marker -> file deleted instead of GC abort"); sys.exit(1)
