"""d6b5c80: message says append_files() reports an over-long path as a missing file.
With an over-long BASENAME it still raises OSError(ENAMETOOLONG): the in-flight
marker (named after the basename) is written BEFORE the existence check."""
import sys, errno
from common import *
d = newdir(); t = create_table(d + "/t", schema=SCHEMA)
p = "data/" + "a" * 300 + ".parquet"
print("exists():", t.file_manager.storage.exists(p), " validate_file_exists():", t.file_manager.validate_file_exists(p))
tx = t.new_transaction().begin()
try:
    tx.append_files([DataFile(file_path=p, file_format=FileFormat.PARQUET, partition_values={}, record_count=1, file_size_in_bytes=1)])
except FileNotFoundError as e:
    print("FileNotFoundError (as the commit message promises)"); sys.exit(0)
except OSError as e:
    print("PROBLEM: append_files still raises", type(e).__name__, errno.errorcode.get(e.errno), "from", str(e)[60:130]); sys.exit(1)
