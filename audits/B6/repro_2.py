"""989e126: the commit-time re-validation compares (name, type, required) only.
A first append queued before the table exists, written with a schema whose FIELD IDS
differ from the schema the racing creator persists, is still committed: its column
bounds are keyed by the writer's ids, and filtered scans silently lose the rows."""
import sys
from common import *
from datashard.transaction import Table
mine = Schema(schema_id=1, fields=[{"id": 1, "name": "a", "type": "long", "required": False},
                                   {"id": 2, "name": "b", "type": "long", "required": False}])
theirs = Schema(schema_id=1, fields=[{"id": 2, "name": "a", "type": "long", "required": False},
                                     {"id": 1, "name": "b", "type": "long", "required": False}])
d = newdir()
h = Table(d + "/t", create_if_not_exists=False)       # handle opened without initialising
tx = h.new_transaction().begin()
tx.append_data([{"a": 1, "b": 100}], schema=mine)      # queued while the table does not exist
c = create_table(d + "/t", schema=theirs)              # racing creator persists its schema
try:
    tx.commit()
except ValueError as e:
    print("commit refused (good):", str(e)[:80]); sys.exit(0)
full = c.scan(); fa = c.scan(filter={"a": 1}); fb = c.scan(filter={"b": 100})
print("full scan:", full, "| a==1:", fa, "| b==100:", fb)
if full and (not fa or not fb):
    print("PROBLEM: divergent file committed; filtered scans lose rows the full scan returns"); sys.exit(1)
