"""e81c9c4 (minor, cost): make_durable() fsyncs every ancestor directory once PER FILE.
Registering N files that live in one partition directory issues N*(1+depth) fsyncs
where N+depth would do."""
import sys
from common import *
d = newdir(); t = create_table(d + "/t", schema=SCHEMA)
N = 200
dfs = [prebuilt(t.table_path, f"data/p=1/part-{i}.parquet") for i in range(N)]
n = {"file": 0, "dir": 0}; orig = os.fsync
def cnt(fd):
    p = os.readlink(f"/proc/self/fd/{fd}")
    if "/metadata/" not in p: n["dir" if os.path.isdir(p) else "file"] += 1
    return orig(fd)
os.fsync = cnt
tx = t.new_transaction().begin(); tx.append_files(dfs); os.fsync = orig; tx.rollback()
print(f"{N} files in one directory: {n['file']} file fsyncs + {n['dir']} directory fsyncs (3 distinct directories)")
sys.exit(1 if n["dir"] > 2 * 3 else 0)
