import logging, os, shutil, tempfile
import pyarrow as pa, pyarrow.parquet as pq
from datashard import create_table, load_table
from datashard.data_structures import Schema, DataFile, FileFormat
logging.disable(logging.CRITICAL)
os.makedirs("/dev/shm/b6", exist_ok=True)
SCHEMA = Schema(schema_id=1, fields=[{"id": 1, "name": "x", "type": "long", "required": False}])
def newdir():
    return tempfile.mkdtemp(dir="/dev/shm/b6")
def prebuilt(root, rel, vals=(1, 2, 3)):
    full = os.path.join(root, rel)
    os.makedirs(os.path.dirname(full), exist_ok=True)
    pq.write_table(pa.table({"x": pa.array(list(vals), pa.int64())}), full)
    return DataFile(file_path=rel, file_format=FileFormat.PARQUET, partition_values={}, record_count=len(vals), file_size_in_bytes=os.path.getsize(full))
