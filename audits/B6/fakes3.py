"""Small in-memory fake of the boto3 S3 client."""
import hashlib, io, threading
from datetime import datetime, timezone, timedelta
import botocore.exceptions

def _err(code, op, status=400):
    return botocore.exceptions.ClientError({"Error": {"Code": code, "Message": code}, "ResponseMetadata": {"HTTPStatusCode": status}}, op)

class FakeS3:
    def __init__(self):
        self.objects = {}      # key -> (body, etag, last_modified)
        self.lock = threading.RLock()
        self.skew = timedelta(0)
        self.hooks = []        # callables (op, kwargs, phase) -> may raise; phase 'before'/'after'
        self.log = []
    def now(self):
        return datetime.now(timezone.utc) + self.skew
    def _hook(self, op, kw, phase):
        for h in list(self.hooks):
            h(op, kw, phase)
    def put_object(self, Bucket, Key, Body, IfMatch=None, IfNoneMatch=None, **kw):
        args = dict(Key=Key, Body=Body, IfMatch=IfMatch, IfNoneMatch=IfNoneMatch)
        self._hook("put_object", args, "before")
        if hasattr(Body, "read"): Body = Body.read()
        if isinstance(Body, str): Body = Body.encode()
        with self.lock:
            cur = self.objects.get(Key)
            if IfNoneMatch == "*" and cur is not None:
                self.log.append(("put", Key, Body, "412")); raise _err("PreconditionFailed", "PutObject", 412)
            if IfMatch is not None:
                if cur is None:
                    self.log.append(("put", Key, Body, "404")); raise _err("NoSuchKey", "PutObject", 404)
                if cur[1] != IfMatch:
                    self.log.append(("put", Key, Body, "412")); raise _err("PreconditionFailed", "PutObject", 412)
            etag = '"' + hashlib.md5(Body).hexdigest() + '"'
            self.objects[Key] = (bytes(Body), etag, self.now())
            self.log.append(("put", Key, Body, "ok"))
        self._hook("put_object", args, "after")
        return {"ETag": etag}
    def get_object(self, Bucket, Key, Range=None, **kw):
        self._hook("get_object", dict(Key=Key), "before")
        with self.lock:
            cur = self.objects.get(Key)
            if cur is None: raise _err("NoSuchKey", "GetObject", 404)
            body = cur[0]
            if Range:
                a, b = Range.split("=")[1].split("-"); body = body[int(a): int(b) + 1]
            return {"Body": io.BytesIO(body), "ETag": cur[1], "LastModified": cur[2], "ContentLength": len(body)}
    def head_object(self, Bucket, Key, **kw):
        self._hook("head_object", dict(Key=Key), "before")
        with self.lock:
            cur = self.objects.get(Key)
            if cur is None: raise _err("404", "HeadObject", 404)
            return {"ETag": cur[1], "LastModified": cur[2], "ContentLength": len(cur[0])}
    def delete_object(self, Bucket, Key, **kw):
        self._hook("delete_object", dict(Key=Key), "before")
        with self.lock:
            self.objects.pop(Key, None); self.log.append(("delete", Key))
        return {}
    def list_objects_v2(self, Bucket, Prefix="", ContinuationToken=None, **kw):
        with self.lock:
            keys = sorted(k for k in self.objects if k.startswith(Prefix))
        return {"Contents": [{"Key": k, "Size": len(self.objects[k][0]), "LastModified": self.objects[k][2], "ETag": self.objects[k][1]} for k in keys], "IsTruncated": False, "KeyCount": len(keys)}
    def get_paginator(self, name):
        outer = self
        class P:
            def paginate(self, **kw): yield outer.list_objects_v2(**kw)
        return P()
