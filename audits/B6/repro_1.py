"""bc34c9c: rounding the filter value to float32 before bound-pruning makes range
filters on a 32-bit float column prune files the row-level engine matches.
Oracle: the same scan done by reading every file and applying the library's own
compute expression (i.e. pruning switched off)."""
import shutil, sys, tempfile
from datashard import create_table
from datashard.data_structures import Schema
import datashard.filters as F

bad = 0
def scan_both(t, flt, verify):
    got = t.scan(filter=flt, verify_checksums=verify)
    orig = F.prune_files_by_bounds
    F.prune_files_by_bounds = lambda files, e, s: files      # oracle: no pruning
    try:
        want = t.scan(filter=flt, verify_checksums=verify)
    finally:
        F.prune_files_by_bounds = orig
    return got, want

for val, flt in [(0.1, (">", 0.1)), (0.1, (">=", 0.10000000001)), (0.7, ("<", 0.7)), (0.7, ("<=", 0.6999999999)),
                 (0.1, ("between", (0.10000000001, 5.0)))]:
    d = tempfile.mkdtemp(dir="/dev/shm/b6")
    t = create_table(d + "/t", schema=Schema(schema_id=1, fields=[{"id": 1, "name": "x", "type": "float", "required": False}]))
    t.append_records([{"x": val}])
    for verify in (True, False):
        got, want = scan_both(t, {"x": flt}, verify)
        flag = "" if got == want else "   <-- MISMATCH (file pruned)"
        if got != want:
            bad += 1
        print(f"x={val!r} filter={flt!r} verify={verify}: with pruning {got}  without pruning {want}{flag}")
    shutil.rmtree(d)
sys.exit(1 if bad else 0)
