"""3125173: (a) zone-aware UTC datetimes - datetime.now(timezone.utc), the idiom that
replaces the deprecated utcnow() - are now rejected for 'timestamp' columns although
nothing is shifted (only the UTC label is dropped); the library has no timestamptz type,
so there is no column that accepts them. (b) the same loss through a zone-aware
datetime.time into a 'time' column is still silent."""
import sys, datetime as dt
from common import *
S = Schema(schema_id=1, fields=[{"id": 1, "name": "ts", "type": "timestamp", "required": False}, {"id": 2, "name": "t", "type": "time", "required": False}])
d = newdir(); t = create_table(d + "/t", schema=S); bad = 0
v = dt.datetime(2024, 1, 2, 3, 4, 5, tzinfo=dt.timezone.utc)
try:
    t.append_records([{"ts": v}]); print("UTC-aware datetime accepted ->", t.scan()[-1]["ts"])
except ValueError as e:
    print("(a) UTC-aware datetime REJECTED:", str(e)[:150]); bad = 1
tz = dt.timezone(dt.timedelta(hours=5))
t.append_records([{"t": dt.time(1, 2, 3, tzinfo=tz)}])
print("(b) time(01:02:03+05:00) accepted, read back as", t.scan()[-1]["t"], "(zone silently dropped)")
sys.exit(bad)
