"""Small in-memory fake of the boto3 S3 client (enough for DataShard)."""
import hashlib
import io
import threading
from datetime import datetime, timezone

import boto3
import boto3.session
from botocore.exceptions import ClientError


def _err(code, op, status=400):
    return ClientError({"Error": {"Code": code, "Message": code},
                        "ResponseMetadata": {"HTTPStatusCode": status}}, op)


class _Body(io.BytesIO):
    pass


class FakeS3:
    def __init__(self):
        self.objects = {}  # key -> (bytes, etag, last_modified)
        self.lock = threading.RLock()
        self.log = []
        self.hooks = []  # callables (op, kwargs) -> None / may raise, called BEFORE op
        self.after_hooks = []  # callables (op, kwargs) called AFTER op applied (may raise)
        self.now = None  # override clock

    def _now(self):
        return self.now or datetime.now(timezone.utc)

    def _call(self, op, kwargs):
        self.log.append((op, kwargs.get("Key") or kwargs.get("Prefix")))
        for h in list(self.hooks):
            h(op, kwargs)

    def _after(self, op, kwargs):
        for h in list(self.after_hooks):
            h(op, kwargs)

    def get_object(self, **kw):
        self._call("get_object", kw)
        with self.lock:
            key = kw["Key"]
            if key not in self.objects:
                raise _err("NoSuchKey", "GetObject", 404)
            data, etag, lm = self.objects[key]
        rng = kw.get("Range")
        if rng:
            a, b = rng.split("=")[1].split("-")
            data = data[int(a): int(b) + 1]
        return {"Body": _Body(data), "ETag": etag, "LastModified": lm, "ContentLength": len(data)}

    def head_object(self, **kw):
        self._call("head_object", kw)
        with self.lock:
            key = kw["Key"]
            if key not in self.objects:
                raise _err("404", "HeadObject", 404)
            data, etag, lm = self.objects[key]
        return {"ETag": etag, "LastModified": lm, "ContentLength": len(data)}

    def put_object(self, **kw):
        self._call("put_object", kw)
        with self.lock:
            key = kw["Key"]
            body = kw["Body"]
            if hasattr(body, "read"):
                body = body.read()
            if isinstance(body, str):
                body = body.encode()
            cur = self.objects.get(key)
            if kw.get("IfNoneMatch") == "*" and cur is not None:
                raise _err("PreconditionFailed", "PutObject", 412)
            if "IfMatch" in kw:
                if cur is None:
                    raise _err("NoSuchKey", "PutObject", 404)
                if cur[1] != kw["IfMatch"]:
                    raise _err("PreconditionFailed", "PutObject", 412)
            etag = '"%s"' % hashlib.md5(bytes(body)).hexdigest()
            self.objects[key] = (bytes(body), etag, self._now())
        self._after("put_object", kw)
        return {"ETag": etag}

    def delete_object(self, **kw):
        self._call("delete_object", kw)
        with self.lock:
            self.objects.pop(kw["Key"], None)
        return {}

    def list_objects_v2(self, **kw):
        self._call("list_objects_v2", kw)
        prefix = kw.get("Prefix", "")
        with self.lock:
            keys = sorted(k for k in self.objects if k.startswith(prefix))
        mk = kw.get("MaxKeys")
        if mk:
            keys = keys[:mk]
        if not keys:
            return {"KeyCount": 0}
        return {"Contents": [{"Key": k, "Size": len(self.objects[k][0]),
                              "LastModified": self.objects[k][2]} for k in keys],
                "KeyCount": len(keys)}

    def get_paginator(self, name):
        outer = self

        class P:
            def paginate(self, **kw):
                yield outer.list_objects_v2(**kw)
        return P()


def install(fake=None):
    fake = fake or FakeS3()
    boto3.client = lambda *a, **k: fake
    boto3.session.Session.client = lambda self, *a, **k: fake
    return fake


def install_arrow(fake):
    """Route pyarrow.fs.S3FileSystem writes/reads ('bucket/key') into the fake."""
    import pyarrow as pa
    import pyarrow.fs as pafs

    class _Sink(io.BytesIO):
        def __init__(self, key):
            super().__init__()
            self._key = key

        def close(self):
            if not self.closed:
                fake.put_object(Bucket="b", Key=self._key, Body=self.getvalue())
            super().close()

    class H(pafs.FileSystemHandler):
        def __eq__(self, o): return isinstance(o, H)
        def __ne__(self, o): return not isinstance(o, H)
        def get_type_name(self): return "fakes3"
        def normalize_path(self, p): return p
        def _key(self, p): return p.split("/", 1)[1]
        def get_file_info(self, paths):
            out = []
            for p in paths:
                k = self._key(p)
                if k in fake.objects:
                    out.append(pafs.FileInfo(p, pafs.FileType.File, size=len(fake.objects[k][0])))
                else:
                    out.append(pafs.FileInfo(p, pafs.FileType.NotFound))
            return out
        def get_file_info_selector(self, sel): return []
        def create_dir(self, p, recursive): pass
        def delete_dir(self, p): pass
        def delete_dir_contents(self, p, missing_dir_ok=False): pass
        def delete_root_dir_contents(self): pass
        def delete_file(self, p): fake.delete_object(Bucket="b", Key=self._key(p))
        def move(self, s, d): raise NotImplementedError
        def copy_file(self, s, d): raise NotImplementedError
        def open_input_stream(self, p): return pa.BufferReader(fake.objects[self._key(p)][0])
        def open_input_file(self, p): return pa.BufferReader(fake.objects[self._key(p)][0])
        def open_output_stream(self, p, metadata): return pa.PythonFile(_Sink(self._key(p)), mode="w")
        def open_append_stream(self, p, metadata): raise NotImplementedError

    pafs.S3FileSystem = lambda *a, **k: pafs.PyFileSystem(H())
