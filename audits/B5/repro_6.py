"""e362918: float32 range check uses `abs(value) > 3.4028235677973366e38`. That constant is
the float32 ROUNDING THRESHOLD (max + half ulp), and at exactly that value round-to-even
gives +inf, so the boundary value itself is still stored as infinity without an error.
exit 1 when an append of a finite value reads back as inf.
"""
import os, sys, tempfile, math
from datashard import Schema, create_table
tp = os.path.join(tempfile.mkdtemp(prefix="b5r6_"), "t")
t = create_table(tp, Schema(schema_id=1, fields=[{"id": 1, "name": "x", "type": "float", "required": True}]))
v = 3.4028235677973366e38
try:
    t.append_records([{"x": v}])
except ValueError as e:
    print("rejected:", e); sys.exit(0)
got = t.scan()[0]["x"]
print("appended", v, "read back", got)
sys.stdout.flush(); os._exit(1 if math.isinf(got) else 0)
