"""da6a982: LocalStorageBackend.exists() now lets every OSError but ENOENT/ENOTDIR escape.
A name that CANNOT exist (component longer than NAME_MAX -> ENAMETOOLONG) is "not there",
but exists()/validate_file_exists()/append_files() now raise OSError where they used to
answer False / FileNotFoundError("Data file does not exist").
exit 1 when exists() raises for an impossible name.
"""
import os, sys, tempfile
from datashard.storage_backend import LocalStorageBackend
root = tempfile.mkdtemp(prefix="b5r4_")
b = LocalStorageBackend(root)
os.makedirs(os.path.join(root, "data"))
try:
    print("exists ->", b.exists("data/" + "x" * 300 + ".parquet"))
except OSError as e:
    print("exists RAISES:", e.__class__.__name__, e.errno, str(e)[:50])
    sys.exit(1)
