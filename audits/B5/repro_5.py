"""38d48b4: append_files() now reads EVERY checksum-less pre-built file end to end at
registration (8 KiB reads) and, because the entry then carries a checksum, every later
scan takes the `verify and checksum` branch: whole-object read_file() into memory, no
column projection / range reads. Before: footer-only at registration, range reads in scans.
Reports bytes fetched from (fake) S3; exit 1 when registration + a 1-column scan download
more than 1.5x the object.
"""
import os, sys, io
os.environ.update(DATASHARD_STORAGE_TYPE="s3", DATASHARD_S3_BUCKET="b")
import fake_s3
fake = fake_s3.install(); fake_s3.install_arrow(fake)
import pyarrow as pa, pyarrow.parquet as pq
from datashard import Schema, create_table, DataFile, FileFormat

schema = Schema(schema_id=1, fields=[
    {"id": 1, "name": "id", "type": "long", "required": True},
    {"id": 2, "name": "blob", "type": "string", "required": False}])
t = create_table("wh/t", schema)
asch = t.file_manager.data_file_manager.create_arrow_schema(schema)
buf = io.BytesIO()
rows = [{"id": i, "blob": os.urandom(400).hex()} for i in range(8000)]
pq.write_table(pa.Table.from_pylist(rows, schema=asch), buf, compression="none")
key = "wh/t/data/prebuilt.parquet"
fake.put_object(Bucket="b", Key=key, Body=buf.getvalue())
size = len(buf.getvalue())

fetched = {"n": 0, "bytes": 0}
orig = fake.get_object
def counting(**kw):
    r = orig(**kw)
    if kw["Key"] == key:
        fetched["n"] += 1; fetched["bytes"] += r["ContentLength"]
    return r
fake.get_object = counting

tx = t.new_transaction().begin()
tx.append_files([DataFile(file_path="data/prebuilt.parquet", file_format=FileFormat.PARQUET,
                          partition_values={}, record_count=len(rows), file_size_in_bytes=size)])
reg = dict(fetched)
tx.commit()
fetched.update(n=0, bytes=0)
t.scan(columns=["id"])
print(f"object size {size}; registration fetched {reg['bytes']} B in {reg['n']} GETs; "
      f"scan(columns=['id']) fetched {fetched['bytes']} B in {fetched['n']} GETs")
sys.exit(1 if reg["bytes"] + fetched["bytes"] > 1.5 * size else 0)
