"""1c6f396: S3 CAS lock renewal now changes the bytes -> the ETag changes on every renewal.
A renewal PUT that LANDED but whose response was lost (timeout / 5xx after apply; also
botocore's own re-send of such a request, which then meets its own first attempt) leaves
self._etag stale. Before the patch the next renewal still matched (same bytes => same ETag).
After the patch the next renewal gets 412 and the holder declares its LIVE lock lost:
is_locked=False -> the commit fence aborts, and release() returns early, leaving the lock
object on S3 with a fresh LastModified (everyone else waits a full lease).
exit 1 when the holder loses a lock nobody took.
"""
import sys
import fake_s3
from botocore.exceptions import ClientError

fake = fake_s3.install()
from datashard.lock_provider import S3LockProvider  # noqa: E402

lock = S3LockProvider(fake, "b", "t/.locks/metadata.lock", timeout=2.0, lease_seconds=60)
lock._start_heartbeat = lambda: None  # drive renewals by hand
assert lock.acquire()

# one renewal whose PUT is applied server-side but the client sees an error
state = {"armed": True}


def lose_response(op, kw):
    if op == "put_object" and state["armed"] and "IfMatch" in kw:
        state["armed"] = False
        raise ClientError({"Error": {"Code": "RequestTimeout", "Message": "response lost"},
                           "ResponseMetadata": {"HTTPStatusCode": 500}}, "PutObject")


fake.after_hooks.append(lose_response)
lock._renew_once()          # landed, response lost -> "Failed to renew" (harmless warning)
print("after lost-response renewal: is_locked =", lock.is_locked,
      "object =", fake.objects[lock.key][0])
lock._renew_once()          # next heartbeat
print("after next renewal:          is_locked =", lock.is_locked,
      "is_held() =", lock.is_held())
held = lock.is_locked
lock.release()
leaked = lock.key in fake.objects
print("lock object still on S3 after release():", leaked)
if not held or leaked:
    print("PROBLEM: holder dropped a lock nobody else took (and leaked the object)")
    sys.exit(1)
print("ok")
