"""1392b8b: append_files() keys the in-flight marker on the file's BASENAME only.
Two pre-built files with the same basename in different directories (the normal
partitioned layout: data/p=1/part-0.parquet, data/p=2/part-0.parquet) share one marker
name: _has_inflight_marker() answers True for the second and no marker (payload) is
written for it, so a GC during the open transaction still deletes it - exactly the
defect the commit claims to fix ("a marker for EVERY pre-built file").
Also shown: a second transaction registering a same-named file overwrites the first
transaction's marker, and its commit/rollback removes it.
exit 1 when a registered pre-built file of an open transaction is deleted by GC.
"""
import os
import sys
import tempfile
import time

import pyarrow as pa
import pyarrow.parquet as pq

from datashard import DataFile, FileFormat, Schema, create_table, load_table

root = tempfile.mkdtemp(prefix="b5r2_")
tp = os.path.join(root, "t")
schema = Schema(schema_id=1, fields=[{"id": 1, "name": "id", "type": "long", "required": True}])
table = create_table(tp, schema)
arrow_schema = table.file_manager.data_file_manager.create_arrow_schema(schema)

old = time.time() - 7 * 24 * 3600
files = []
for part in ("p=1", "p=2"):
    rel = f"data/{part}/part-0.parquet"
    full = os.path.join(tp, rel)
    os.makedirs(os.path.dirname(full), exist_ok=True)
    pq.write_table(pa.Table.from_pylist([{"id": 1}], schema=arrow_schema), full)
    os.utime(full, (old, old))
    files.append(DataFile(file_path=rel, file_format=FileFormat.PARQUET, partition_values={},
                          record_count=1, file_size_in_bytes=os.path.getsize(full)))

tx = table.new_transaction().begin()
tx.append_files(files)
print("markers written:", tx._inflight_markers)

# a concurrent maintenance job
stats = load_table(tp).garbage_collect()  # default 1h grace
print("gc stats:", stats)
alive = [os.path.exists(os.path.join(tp, f.file_path)) for f in files]
print("files alive after GC:", dict(zip([f.file_path for f in files], alive)))
bad = not all(alive)
try:
    tx.commit()
    print("commit ok")
except Exception as e:  # noqa: BLE001
    print("commit failed:", type(e).__name__, e)
if bad:
    print("PROBLEM: GC deleted a pre-built file registered by an open transaction")
    sys.exit(1)
print("ok")
