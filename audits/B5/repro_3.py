"""4f0c1c6: "a version hint of ... over-long digits is unparseable, not an error" only
covers the legacy bare-number spelling. The current spelling 'v<digits>.metadata.json'
goes through int(m.group(1)) unguarded, so the same garbage still raises ValueError out
of load_table()/refresh()/commit()/GC instead of falling back to recovery by scanning.
exit 1 when an over-long-digit hint still raises.
"""
import os, sys, tempfile
from datashard import Schema, create_table, load_table
from datashard.metadata_manager import MetadataManager

bad = False
for content in (b"9" * 5000, b"v" + b"9" * 5000 + b".metadata.json"):
    try:
        r = MetadataManager._parse_hint_content(content)
        print(content[:12], "... ->", r)
    except ValueError as e:
        print(content[:12], "... -> RAISES ValueError:", str(e)[:60])
        bad = True

root = tempfile.mkdtemp(prefix="b5r3_")
tp = os.path.join(root, "t")
create_table(tp, Schema(schema_id=1, fields=[{"id": 1, "name": "id", "type": "long", "required": True}]))
with open(os.path.join(tp, "metadata.version-hint.text"), "wb") as f:
    f.write(b"v" + b"9" * 5000 + b".metadata.json")
try:
    load_table(tp)
    print("load_table recovered by scanning")
except ValueError as e:
    print("load_table RAISES:", str(e)[:60])
    bad = True
sys.exit(1 if bad else 0)
