"""1392b8b (cross-transaction variant): the marker path is metadata/inflight/<basename>.inflight,
shared by every transaction. Tx B registering a same-named file overwrites tx A's marker payload
and B's commit deletes the marker, so A's (still open) pre-built file loses its GC protection.
exit 1 when GC deletes the file of the still-open transaction A.
"""
import os, sys, tempfile, time
import pyarrow as pa, pyarrow.parquet as pq
from datashard import DataFile, FileFormat, Schema, create_table, load_table
tp = os.path.join(tempfile.mkdtemp(prefix="b5r7_"), "t")
schema = Schema(schema_id=1, fields=[{"id": 1, "name": "id", "type": "long", "required": True}])
table = create_table(tp, schema)
asch = table.file_manager.data_file_manager.create_arrow_schema(schema)
old = time.time() - 7 * 24 * 3600
def mk(rel):
    full = os.path.join(tp, rel); os.makedirs(os.path.dirname(full), exist_ok=True)
    pq.write_table(pa.Table.from_pylist([{"id": 1}], schema=asch), full); os.utime(full, (old, old))
    return DataFile(file_path=rel, file_format=FileFormat.PARQUET, partition_values={}, record_count=1,
                    file_size_in_bytes=os.path.getsize(full))
fa, fb = mk("data/jobA/part-0.parquet"), mk("data/jobB/part-0.parquet")
txa = table.new_transaction().begin(); txa.append_files([fa])
other = load_table(tp)
txb = other.new_transaction().begin(); txb.append_files([fb]); txb.commit()
print("markers after B committed:", os.listdir(os.path.join(tp, "metadata/inflight")))
print("gc:", load_table(tp).garbage_collect())
alive = os.path.exists(os.path.join(tp, fa.file_path))
print("A's registered file alive:", alive)
sys.stdout.flush(); os._exit(0 if alive else 1)
