import os, types, io, logging
logging.disable(logging.CRITICAL)
from s3fake import FakeS3
import datashard.storage_backend as sb
import pyarrow.fs as pafs

def install():
    fake = FakeS3()
    ns = types.SimpleNamespace(session=types.SimpleNamespace(
        Session=lambda: types.SimpleNamespace(client=lambda *a, **k: fake)), client=lambda *a, **k: fake)
    sb.boto3 = ns
    import boto3
    boto3.client = lambda *a, **k: fake
    boto3.session.Session = lambda *a, **k: types.SimpleNamespace(client=lambda *a, **k: fake)
    pafs.S3FileSystem = lambda *a, **k: None   # record writes are not used in these scripts
    os.environ.update(DATASHARD_STORAGE_TYPE="s3", DATASHARD_S3_BUCKET="b",
                      DATASHARD_S3_ACCESS_KEY="k", DATASHARD_S3_SECRET_KEY="s")
    return fake

def parquet_bytes(table):
    import pyarrow.parquet as pq
    buf = io.BytesIO(); pq.write_table(table, buf); return buf.getvalue()
