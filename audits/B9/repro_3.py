"""_file_may_match IN branch: bounds ignore NaN (pc.min/max skip it) but the row-level
engine's is_in matches NaN against NaN -> a file holding NaN rows is pruned.
(The NE branch already accounts for NaN; IN does not.)"""
import sys, tempfile, logging
logging.disable(logging.CRITICAL)
from datashard import create_table
from datashard.data_structures import Schema
import datashard.filters as F

bad = []
for kind in ("float", "double"):
    t = create_table(tempfile.mkdtemp() + "/t", schema=Schema(schema_id=1, fields=[
        {"id": 1, "name": "x", "type": kind, "required": False}]))
    t.append_records([{"x": 1.0}, {"x": float("nan")}])
    flt = {"x": ("in", [float("nan")])}
    pruned = t.scan(filter=flt)
    orig = F.prune_files_by_bounds
    F.prune_files_by_bounds = lambda files, e, s: files   # row-level engine alone
    try:
        rowlevel = t.scan(filter=flt)
    finally:
        F.prune_files_by_bounds = orig
    print(kind, "row-level:", rowlevel, " with pruning:", pruned)
    if repr(pruned) != repr(rowlevel):
        bad.append(kind)
sys.exit(1 if bad else 0)
