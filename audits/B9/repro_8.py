"""_as_float32 rounds list/tuple/set only; the row-level engine (pa.array(values)) also
accepts frozenset / dict views etc. -> IN on a float32 column still prunes the file
holding exactly the value asked for (what bc34c9c/b7a2891 set out to fix)."""
import sys, tempfile, logging
logging.disable(logging.CRITICAL)
from datashard import create_table
from datashard.data_structures import Schema
t = create_table(tempfile.mkdtemp() + "/t", schema=Schema(schema_id=1, fields=[
    {"id": 1, "name": "x", "type": "float", "required": False}]))
t.append_records([{"x": 0.1}])
bad = []
for v in ([0.1], frozenset([0.1]), {0.1: "a"}.keys()):
    got = t.scan(filter={"x": ("in", v)})
    print(type(v).__name__, "->", got)
    if not got: bad.append(type(v).__name__)
sys.exit(1 if bad else 0)
