"""e30f51e: a payload-less marker is how OLDER versions wrote every marker (see
_marker_target docstring) - marker first, data file second. Such a marker whose
data file is not there (legacy writer between the two steps, or one that died /
failed to remove it on rollback) used to be harmless; now every collection aborts
until the marker is 24h old."""
import sys, os, tempfile, logging
logging.disable(logging.CRITICAL)
from datashard import create_table
from datashard.data_structures import Schema
from datashard.garbage_collector import GarbageCollectionAborted

t = create_table(tempfile.mkdtemp() + "/t", schema=Schema(schema_id=1, fields=[
    {"id": 1, "name": "x", "type": "long", "required": False}]))
t.append_records([{"x": 1}])
inflight = os.path.join(t.table_path, "metadata", "inflight")
os.makedirs(inflight, exist_ok=True)
open(os.path.join(inflight, "auto_0123456789abcdef.parquet.inflight"), "wb").close()  # legacy format
try:
    print("GC:", t.garbage_collect())
    sys.exit(0)
except GarbageCollectionAborted as e:
    print("GC aborted:", str(e)[:150])
    sys.exit(1)
