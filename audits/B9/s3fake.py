"""Tiny in-memory fake of the boto3 S3 client (only what datashard uses)."""
import hashlib, io, threading, datetime
import botocore.exceptions

def _err(code, op, status=None):
    return botocore.exceptions.ClientError(
        {"Error": {"Code": code, "Message": code},
         "ResponseMetadata": {"HTTPStatusCode": status or (404 if code in ("404", "NoSuchKey") else 412)}}, op)

class Body(io.BytesIO):
    pass

class FakeS3:
    def __init__(self):
        self.objects = {}   # key -> (bytes, etag, last_modified)
        self.lock = threading.RLock()
        self.now = lambda: datetime.datetime.now(datetime.timezone.utc)
        self.log = []
    def put_object(self, Bucket, Key, Body, IfMatch=None, IfNoneMatch=None, **kw):
        if hasattr(Body, "read"): Body = Body.read()
        with self.lock:
            self.log.append(("PUT", Key, IfMatch, IfNoneMatch))
            cur = self.objects.get(Key)
            if IfNoneMatch == "*" and cur is not None:
                raise _err("PreconditionFailed", "PutObject")
            if IfMatch is not None:
                if cur is None: raise _err("NoSuchKey", "PutObject")
                if cur[1] != IfMatch: raise _err("PreconditionFailed", "PutObject")
            etag = '"' + hashlib.md5(bytes(Body)).hexdigest() + '"'
            self.objects[Key] = (bytes(Body), etag, self.now())
            return {"ETag": etag}
    def get_object(self, Bucket, Key, Range=None, **kw):
        with self.lock:
            self.log.append(("GET", Key))
            cur = self.objects.get(Key)
            if cur is None: raise _err("NoSuchKey", "GetObject")
            data = cur[0]
            if Range:
                a, b = Range.split("=")[1].split("-")
                data = data[int(a): int(b) + 1]
            return {"Body": Body(data), "ETag": cur[1], "LastModified": cur[2], "ContentLength": len(data)}
    def head_object(self, Bucket, Key, **kw):
        with self.lock:
            self.log.append(("HEAD", Key))
            cur = self.objects.get(Key)
            if cur is None: raise _err("404", "HeadObject")
            return {"ETag": cur[1], "LastModified": cur[2], "ContentLength": len(cur[0])}
    def delete_object(self, Bucket, Key, **kw):
        with self.lock:
            self.log.append(("DELETE", Key))
            self.objects.pop(Key, None)
            return {}
    def list_objects_v2(self, Bucket, Prefix="", MaxKeys=1000, **kw):
        with self.lock:
            keys = sorted(k for k in self.objects if k.startswith(Prefix))[:MaxKeys]
            return {"Contents": [{"Key": k, "Size": len(self.objects[k][0]), "LastModified": self.objects[k][2]} for k in keys]} if keys else {}
    def get_paginator(self, name):
        fake = self
        class P:
            def paginate(self, **kw):
                yield fake.list_objects_v2(**{**kw, "MaxKeys": 10**9})
        return P()
