"""S3LockProvider._try_acquire / _try_takeover_expired: a create (or takeover) PUT that
LANDED but whose response was lost is re-sent by the SDK and meets its own first
attempt -> 412. The hint write (0034e06) and the renewal (b882aa8) re-read before
judging; acquisition does not: the instance waits for ITS OWN lock until timeout,
and the orphaned lock object then blocks every writer for the whole lease."""
import sys, time, logging
logging.disable(logging.CRITICAL)
from s3fake import FakeS3, _err
from datashard.lock_provider import S3LockProvider

s3 = FakeS3()
real_put = s3.put_object
state = {"armed": True}
def put(**kw):
    if state["armed"] and kw.get("IfNoneMatch") == "*":
        state["armed"] = False
        real_put(**kw)                               # first attempt lands, response lost
        raise _err("PreconditionFailed", "PutObject")  # SDK's re-send meets it
    return real_put(**kw)
s3.put_object = put

lock = S3LockProvider(s3, "b", "t/.locks/metadata.lock", timeout=3.0, lease_seconds=60)
t0 = time.time()
try:
    ok = lock.acquire()
    print("acquired:", ok)
    lock.release()
    sys.exit(0)
except TimeoutError as e:
    body = s3.objects["t/.locks/metadata.lock"][0].decode()
    print(f"TimeoutError after {time.time()-t0:.1f}s; lock object content = {body!r}; "
          f"names this instance: {lock._owns(body)}; is_locked={lock.is_locked}")
    other = S3LockProvider(s3, "b", "t/.locks/metadata.lock", timeout=2.0, lease_seconds=60)
    try:
        other.acquire(); print("other writer acquired")
    except TimeoutError:
        print("another writer: TimeoutError too (object stays until the 60s lease lapses)")
    sys.exit(1)
