"""append_files(): the marker is named '<basename>.<8hex>.inflight' (+18 chars) and
write_file() stages it as '.tmp.<8>.<marker name>' (+14 more). A pre-built file whose
(valid, existing) basename is longer than 223 characters can no longer be registered:
marker write fails with ENAMETOOLONG (and d6b5c80 made exists() answer for such names)."""
import sys, os, tempfile, logging
logging.disable(logging.CRITICAL)
import pyarrow as pa, pyarrow.parquet as pq
from datashard import create_table, DataFile, FileFormat
from datashard.data_structures import Schema
t = create_table(tempfile.mkdtemp() + "/t", schema=Schema(schema_id=1, fields=[
    {"id": 1, "name": "x", "type": "long", "required": False}]))
os.makedirs(t.table_path + "/data", exist_ok=True)
bad = []
for n in (223, 224, 240):
    name = ("f" * (n - 8)) + ".parquet"
    pq.write_table(pa.table({"x": pa.array([1], pa.int64())}), f"{t.table_path}/data/{name}")
    tx = t.new_transaction().begin()
    try:
        tx.append_files([DataFile(file_path=f"/data/{name}", file_format=FileFormat.PARQUET, partition_values={},
                                  record_count=1, file_size_in_bytes=1)])
        tx.commit(); print(n, "ok")
    except OSError as e:
        print(n, "append_files failed:", type(e).__name__, e.strerror); bad.append(n); tx.rollback()
sys.exit(1 if bad else 0)
