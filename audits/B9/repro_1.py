"""Type spelled {"type": X} (accepted by Schema, mapped like X by _iceberg_type_to_arrow,
declared "one type" with X by f85e07b) bypasses validate_records_strict's guards
(3125173 / e336573) and prune_files_by_bounds' float32 rounding (b7a2891)."""
import sys, tempfile, datetime, logging
logging.disable(logging.CRITICAL)
from datashard import create_table
from datashard.data_structures import Schema

bad = []
def table(fields):
    d = tempfile.mkdtemp()
    return create_table(d + "/t", schema=Schema(schema_id=1, fields=fields))

# (a) float into a long column is truncated silently
for spelled in ("long", {"type": "long"}):
    t = table([{"id": 1, "name": "n", "type": spelled, "required": False}])
    try:
        t.append_records([{"n": 7.9}])
        rows = t.scan()
        print(f"type={spelled!r}: 7.9 stored as {rows}")
        bad.append(f"int guard bypassed for {spelled!r}")
    except ValueError as e:
        print(f"type={spelled!r}: rejected ({str(e)[:50]}...)")

# (b) non-UTC datetime into timestamp column shifted silently
tz = datetime.timezone(datetime.timedelta(hours=5))
for spelled in ("timestamp", {"type": "timestamp"}):
    t = table([{"id": 1, "name": "ts", "type": spelled, "required": False}])
    try:
        t.append_records([{"ts": datetime.datetime(2024, 1, 1, 12, tzinfo=tz)}])
        print(f"type={spelled!r}: 12:00+05:00 stored as {t.scan()}")
        bad.append(f"temporal guard bypassed for {spelled!r}")
    except ValueError as e:
        print(f"type={spelled!r}: rejected")

# (c) IN on a float32 column: file pruned although the row matches
for spelled in ("float", {"type": "float"}):
    t = table([{"id": 1, "name": "x", "type": spelled, "required": False}])
    t.append_records([{"x": 0.1}])
    got = t.scan(filter={"x": ("in", [0.1])})
    print(f"type={spelled!r}: IN [0.1] -> {got} (table holds {t.scan()})")
    if not got:
        bad.append(f"IN pruned for {spelled!r}")

print("PROBLEMS:", bad)
sys.exit(1 if bad else 0)
