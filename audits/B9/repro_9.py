"""Transaction.commit/_revalidate_written_schemas covers append_data() files only. A
PRE-BUILT file queued by append_files() while the table had no persisted schema
(creator racing the first append - the very case the re-validation exists for) is
checked neither then (table_schema is None) nor at commit: a divergent parquet file
is committed and every later full scan fails."""
import sys, os, tempfile, logging
logging.disable(logging.CRITICAL)
import pyarrow as pa, pyarrow.parquet as pq
from datashard import create_table, DataFile, FileFormat
from datashard.transaction import Table
from datashard.data_structures import Schema

p = tempfile.mkdtemp() + "/t"
os.makedirs(p + "/data")
pq.write_table(pa.table({"z": pa.array(["a"], pa.string())}), p + "/data/pre.parquet")
B = Table(p, create_if_not_exists=False)               # opened before the table exists
tx = B.new_transaction().begin()
tx.append_files([DataFile(file_path="/data/pre.parquet", file_format=FileFormat.PARQUET,
                          partition_values={}, record_count=1,
                          file_size_in_bytes=os.path.getsize(p + "/data/pre.parquet"))])
A = create_table(p, schema=Schema(schema_id=1, fields=[
    {"id": 1, "name": "x", "type": "long", "required": False}]))   # creator wins the race
A.append_records([{"x": 1}])
try:
    tx.commit()
    print("commit of the divergent pre-built file: ACCEPTED")
except ValueError as e:
    print("commit refused:", str(e)[:80]); sys.exit(0)
try:
    print(A.scan()); sys.exit(0)
except Exception as e:
    print("full scan now fails:", type(e).__name__, str(e)[:100]); sys.exit(1)
