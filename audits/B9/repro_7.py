"""4bd6c87: a marker is named '<data file basename>.<8hex>.inflight'. For a pre-built
file whose basename starts with '.tmp.' the REAL marker starts with '.tmp.' too and
is now skipped as 'temp file of a marker being written': the open transaction's
file loses its protection and is collected."""
import sys, os, time, tempfile, logging
logging.disable(logging.CRITICAL)
import pyarrow as pa, pyarrow.parquet as pq
from datashard import create_table, DataFile, FileFormat
from datashard.data_structures import Schema

t = create_table(tempfile.mkdtemp() + "/t", schema=Schema(schema_id=1, fields=[
    {"id": 1, "name": "x", "type": "long", "required": False}]))
t.append_records([{"x": 0}])
rel = "data/.tmp.export-2024.parquet"
full = os.path.join(t.table_path, rel)
pq.write_table(pa.table({"x": pa.array([1, 2, 3], pa.int64())}), full)
old = time.time() - 7200
os.utime(full, (old, old))                       # built two hours ago

tx = t.new_transaction().begin()
tx.append_files([DataFile(file_path="/" + rel, file_format=FileFormat.PARQUET, partition_values={},
                          record_count=3, file_size_in_bytes=os.path.getsize(full))])
print("markers:", os.listdir(os.path.join(t.table_path, "metadata/inflight")))
stats = t.garbage_collect()                      # default 1h grace, transaction still open
print("GC next to the open transaction:", stats, "| file still there:", os.path.exists(full))
try:
    tx.commit(); print("commit ok; rows:", len(t.scan()))
except Exception as e:
    print("commit failed:", type(e).__name__, str(e)[:80])
sys.exit(0 if os.path.exists(full) else 1)
