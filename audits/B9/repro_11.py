"""LocalStorageBackend.write_file: the descriptor from mkstemp is closed only on the
success path. Every failed write (disk full / quota / RLIMIT_FSIZE - the situations
fd90d27 added the short-write loop for) leaks one descriptor; a writer retrying on a
full disk runs into EMFILE."""
import sys, os, resource, signal, tempfile
from datashard.storage_backend import LocalStorageBackend
import datashard.storage_backend as sb
sb.check_disk_space = lambda *a, **k: None
st = LocalStorageBackend(tempfile.mkdtemp())
signal.signal(signal.SIGXFSZ, signal.SIG_IGN)
soft, hard = resource.getrlimit(resource.RLIMIT_FSIZE)
resource.setrlimit(resource.RLIMIT_FSIZE, (16, hard))     # file size quota: 16 bytes
before = len(os.listdir("/proc/self/fd"))
fails = 0
for i in range(50):
    try:
        st.write_file(f"metadata/f{i}.json", b"x" * 100)
    except OSError as e:
        fails += 1; last = e
resource.setrlimit(resource.RLIMIT_FSIZE, (soft, hard))
after = len(os.listdir("/proc/self/fd"))
print(f"{fails} failed writes ({last.strerror}); open descriptors {before} -> {after}")
sys.exit(1 if after - before >= fails and fails else 0)
