"""4bd6c87: '.tmp.*.inflight' files are skipped BEFORE the abandonment handling, so the
temp file of a writer that died inside write_file() is never removed any more
(nothing else sweeps metadata/inflight). The parent commit removed it once older
than the in-flight timeout."""
import sys, os, time, tempfile, logging
logging.disable(logging.CRITICAL)
from datashard import create_table
from datashard.data_structures import Schema

t = create_table(tempfile.mkdtemp() + "/t", schema=Schema(schema_id=1, fields=[
    {"id": 1, "name": "x", "type": "long", "required": False}]))
t.append_records([{"x": 1}])
inflight = os.path.join(t.table_path, "metadata", "inflight")
os.makedirs(inflight, exist_ok=True)
stale = os.path.join(inflight, ".tmp.abcd1234.auto_dead.parquet.0011aabb.inflight")
open(stale, "wb").close()                       # writer died right after mkstemp
old = time.time() - 3 * 24 * 3600               # three days ago
os.utime(stale, (old, old))
for _ in range(2):
    t.garbage_collect()                         # default 24h abandonment timeout
left = os.path.exists(stale)
print("3-day-old marker temp file still there after GC:", left)
sys.exit(1 if left else 0)
