"""3125173: 'values a temporal column cannot hold exactly are rejected' covers float only.
decimal.Decimal (named by the same commit as what DB drivers hand out) is still
truncated and read as days / microseconds since the epoch."""
import sys, tempfile, decimal, logging
logging.disable(logging.CRITICAL)
from datashard import create_table
from datashard.data_structures import Schema

bad = []
for kind in ("date", "timestamp", "time"):
    d = tempfile.mkdtemp()
    t = create_table(d + "/t", schema=Schema(schema_id=1, fields=[
        {"id": 1, "name": "c", "type": kind, "required": False}]))
    for v in (1.5, decimal.Decimal("1.5"), decimal.Decimal("1727300000.25")):
        try:
            t.append_records([{"c": v}])
            print(f"{kind}: {v!r} ACCEPTED -> {t.scan()[-1]}")
            if isinstance(v, decimal.Decimal):
                bad.append((kind, v))
        except Exception as e:
            print(f"{kind}: {v!r} rejected: {type(e).__name__}")
sys.exit(1 if bad else 0)
