"""
repro_1: pointer-lost table on CAS-S3 + a committer whose lock lease lapses while it is paused
between its metadata-file write and the pointer flip.

While the pointer (metadata.version-hint.text) is missing, every reader/committer resolves "the current
version" by scanning metadata/ for the highest v<N>-*.metadata.json.  A committer writes its NEW metadata
file BEFORE the commit point, so during that window the uncommitted file is what the scan returns.  A
second committer adopts it as its base, validates against it (again via the scan), and publishes a
successor with a create-if-absent pointer write.  The first committer is then fenced / loses the CAS and
reports ConcurrentModificationException - but its change is already part of the published chain.

Variant 1: A = SnapshotManager.delete_snapshot(S1)  -> raises, yet S1 is gone from the final table.
Variant 2: A = append (Transaction, auto-retry)     -> acknowledged once, reflected by TWO snapshots and
           its data file is listed twice in the current snapshot's manifests.
Variant 3: as 2, but A's automatic retry then dies on an unrelated transient error -> A's rollback deletes
           its data file, which the published chain already references: the table can no longer be scanned.
Exit code 1 when the defect manifests.
"""
import os, sys, threading, logging, time
from datetime import timedelta
logging.disable(logging.CRITICAL)
sys.path.insert(0, os.path.dirname(os.path.abspath(__file__)))
import fakes3; S = fakes3.install()
from datashard import create_table, load_table, Schema
from datashard.metadata_manager import ConcurrentModificationException

SC = Schema(schema_id=1, fields=[{"id": 1, "name": "k", "type": "long", "required": True}])
HINT = "/metadata.version-hint.text"

def setup(name):
    t = create_table(name, schema=SC)
    t.append_records([{"k": 1}]); t.append_records([{"k": 2}])
    S.objs.pop(("b", name + HINT))                 # the pointer is lost
    return load_table(name), load_table(name)      # loads fine: recovered by scanning

def run(name, a_op, fail_a_after_resume=False):
    hA, hB = setup(name)
    paused, resume = threading.Event(), threading.Event()
    a_thread = {}
    def after(op, kw, res):
        # pause A right after it wrote its new metadata file (before fence + pointer flip)
        if (op == "put_object" and threading.get_ident() == a_thread.get("id") and not paused.is_set()
                and kw["Key"].endswith(".metadata.json")):
            paused.set(); resume.wait(30)
    S.after_hooks.append(after)
    def pre(op, kw):
        # variant 3: one transient 503 on A's next lock request after it resumed
        if (fail_a_after_resume and resume.is_set() and op == "put_object"
                and threading.get_ident() == a_thread.get("id") and kw["Key"].endswith("metadata.lock")):
            raise fakes3._err("ServiceUnavailable", "PutObject", 503)
    S.hooks.append(pre)
    out = {}
    def A():
        a_thread["id"] = threading.get_ident()
        try: out["A"] = ("ok", a_op(hA))
        except Exception as e: out["A"] = ("raised", e)
    th = threading.Thread(target=A); th.start()
    assert paused.wait(30)
    # A (whole process incl. heartbeat) stays frozen for longer than the 60 s lease:
    lk = ("b", name + "/.locks/metadata.lock")
    body, etag, lm = S.objs[lk]; S.objs[lk] = (body, etag, lm - timedelta(seconds=120))
    hB.append_records([{"k": 3}])                  # B takes the expired lock over and commits
    out["B"] = "ok"
    resume.set(); th.join()
    S.after_hooks.clear(); S.hooks.clear()
    return out, load_table(name)

def raw_paths(t):
    md = t.metadata_manager.refresh()
    snap = [s for s in md.snapshots if s.snapshot_id == md.current_snapshot_id][0]
    res = []
    for m in t.file_manager.read_manifest_list_file(snap.manifest_list.lstrip("/")):
        res += [d.file_path for d in t.file_manager.read_manifest_file(m.manifest_path.lstrip("/"))]
    return res, md

bad = 0
# ---- variant 1: delete_snapshot that RAISES is nevertheless applied
tmp = {}
def del_first(h):
    tmp["sid"] = h.snapshots()[0]["snapshot_id"]
    return h.snapshot_manager.delete_snapshot(tmp["sid"])
out, t = run("t1", del_first)
md = t.metadata_manager.refresh()
ids = [s.snapshot_id for s in md.snapshots]
print("variant 1: A outcome:", out["A"][0], type(out["A"][1]).__name__, "| B:", out["B"])
print("   snapshot A tried to delete still present:", tmp["sid"] in ids, "| snapshots now:", len(ids))
if out["A"][0] == "raised" and isinstance(out["A"][1], ConcurrentModificationException) and tmp["sid"] not in ids:
    print("   DEFECT: delete_snapshot raised ConcurrentModificationException but the deletion IS in the final table")
    bad = 1
# ---- variant 2: acknowledged append reflected twice
out, t = run("t2", lambda h: h.append_records([{"k": 100}]))
paths, md = raw_paths(t)
hint = S.objs[("b", "t2" + HINT)][0].decode()
print("variant 2: A outcome:", out["A"], "| B:", out["B"], "| pointer:", hint)
print("   snapshots:", [(s.sequence_number, s.operation) for s in md.snapshots])
print("   data-file entries in current snapshot:", len(paths), "distinct:", len(set(paths)))
print("   rows:", sorted(r["k"] for r in t.scan()))
# 2 setup appends + A + B = 4 acknowledged commits -> expect version 4 / 4 snapshots
if len(md.snapshots) != 4 or len(paths) != len(set(paths)):
    print("   DEFECT: 4 acknowledged commits, but %d snapshots / version %s; A's data file listed %d times"
          % (len(md.snapshots), hint.split('-')[0], len(paths) - len(set(paths)) + 1))
    bad = 1
# ---- variant 3: A finally fails -> its rollback deletes a data file the published chain references
out, t = run("t3", lambda h: h.append_records([{"k": 100}]), fail_a_after_resume=True)
print("variant 3: A outcome:", out["A"][0], repr(out["A"][1])[:70], "| B:", out["B"])
try:
    print("   rows:", sorted(r["k"] for r in t.scan()))
except Exception as e:
    print("   DEFECT: scan of the final table raises:", repr(e)[:110])
    bad = 1
sys.stdout.flush(); os._exit(bad)
