"""
repro_3: on a table without a persisted schema, an append with an explicit schema is silently written with the
Arrow schema of an EARLIER append that merely used the same schema_id: every field of the new records is
dropped and rows of NULLs are committed ("writing empty rows" instead of raising).

DataFileManager.create_arrow_schema (data_operations.py:444-467) caches the converted schema per handle keyed
by schema_id ONLY.  validate_records_strict() checks the records against the schema the caller passed, then
pa.Table.from_pylist(records, schema=<cached, different schema>) discards the unknown keys.
Exit 1 when the defect manifests.
"""
import os, sys, tempfile, logging
logging.disable(logging.CRITICAL)
from datashard import create_table, Schema
d = tempfile.mkdtemp(dir="/tmp")
t = create_table(d + "/t")                      # no schema persisted (legal; appends must pass schema=)
S1 = Schema(schema_id=1, fields=[{"id": 1, "name": "a", "type": "long", "required": False}])
S2 = Schema(schema_id=1, fields=[{"id": 1, "name": "b", "type": "string", "required": False}])
t.append_records([{"a": 1}], schema=S1)
r = t.append_records([{"b": "hello"}], schema=S2)
rows = t.scan()
print("second append returned:", r)
print("scan:", rows)
bad = int(r and {"a": None} in rows and not any("b" in x for x in rows))
if bad: print("DEFECT: the acknowledged record {'b': 'hello'} was stored as {'a': None} - data silently lost")
sys.stdout.flush(); os._exit(bad)
