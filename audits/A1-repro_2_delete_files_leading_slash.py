"""
repro_2: a delete_files() commit reports success but removes nothing when the caller spells the path with a
leading '/' and the manifest entry was recorded without one (both spellings are legal table-relative paths
and are treated as THE SAME file everywhere else: scan de-duplication, GC, validate_file_exists).

transaction.py:544-548 normalises only the MANIFEST side ('f.file_path.lstrip("/") not in deleted_paths'),
never the requested paths, so '/data/x.parquet' does not match the entry 'data/x.parquet'.
The converse spelling (entry '/data/x', request 'data/x') works.  Exit 1 when the defect manifests.
"""
import os, sys, tempfile, logging
logging.disable(logging.CRITICAL)
from datashard import create_table, Schema
d = tempfile.mkdtemp(dir="/tmp")
S = Schema(schema_id=1, fields=[{"id": 1, "name": "k", "type": "long", "required": True}])
t = create_table(d + "/t", schema=S)
t.append_records([{"k": 1}])
# a pre-built data file registered with a plain relative path (what write_data_file returns)
df = t.file_manager.data_file_manager.write_data_file("data/x.parquet", [{"k": 2}], S)
t.append_data([df])
print("before:", sorted(r["k"] for r in t.scan()), "| entry path:", repr(df.file_path))
snaps_before = len(t.snapshots())
with t.new_transaction() as tx:
    tx.delete_files(["/data/x.parquet"])
    ok = tx.commit()
after = sorted(r["k"] for r in t.scan())
print("delete_files(['/data/x.parquet']) commit returned:", ok, "| new snapshot op:", t.snapshots()[-1]["operation"],
      "| snapshots", snaps_before, "->", len(t.snapshots()))
print("after: ", after)
bad = int(ok and 2 in after)
if bad: print("DEFECT: the delete commit was acknowledged (a 'delete' snapshot was published) but the file is still in the table")
# control: converse spelling works
f1 = [f.file_path for f in t._get_all_data_files() if f.file_path.startswith("/")][0]
with t.new_transaction() as tx:
    tx.delete_files([f1.lstrip("/")]); tx.commit()
print("control (entry %r, request %r): rows now %r" % (f1, f1.lstrip("/"), sorted(r["k"] for r in t.scan())))
sys.stdout.flush(); os._exit(bad)
