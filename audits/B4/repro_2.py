#!/venv/bin/python
"""repro_2  [C16, C04]  A failing directory fsync (EIO) is swallowed by
LocalStorageBackend.write_file and DataFileWriter.close: the commit goes on, flips the
pointer and is acknowledged, although the new file's directory entry was never persisted.
Power loss afterwards => pointer to a missing data file / manifest / metadata file
(or, when the table-root fsync fails, an acknowledged commit that silently vanishes).

A storage fault at a storage step must either fail the commit (pre-state) or leave a
durable post-state; here it reports success with a non-durable post-state.

Run: PYTHONPATH=/tmp/seedwt/B4/src /venv/bin/python repro_2.py   (exit 1 = defect shown)
"""
import logging
import os
import sys
import tempfile

sys.path.insert(0, os.path.dirname(os.path.abspath(__file__)))
logging.disable(logging.CRITICAL)
from plmodel import PowerLossTracer
from harness import make_schema
from datashard import create_table, load_table

shown = 0
for failing_dir in ("data", "metadata/manifests", "metadata", "."):
    base = tempfile.mkdtemp(prefix="b4r2_")
    path = os.path.join(base, "tbl")
    tr = PowerLossTracer(path)
    tr.install()
    t = create_table(path, schema=make_schema())
    t.append_records([{"id": 1, "v": "a"}])
    tr.fail_dir_fsync = failing_dir          # from now on fsync(<dir>) raises EIO
    try:
        ack = t.append_records([{"id": 2, "v": "b"}])
    except Exception as e:
        ack = f"raised {type(e).__name__}"
    tr.uninstall()
    eio = [x for x in tr.trace if x[0] == "fsync-dir-EIO"]
    img = os.path.join(base, "after_power_loss")
    tr.crash_image(img)
    try:
        rows = sorted(r["id"] for r in load_table(img).scan())
        after = f"rows={rows}"
        lost = rows != [1, 2]
    except Exception as e:
        after = f"scan FAILS: {type(e).__name__}: {str(e)[:110]}"
        lost = True
    viol = [f"{v[2].split('/')[0]}/..: {v[3][-1][:60]}" for v in tr.violations if v[0] == tr.flips]
    print(f"fsync({failing_dir}/) -> EIO x{len(eio)} | commit returned {ack!r} | violations at pointer flip: {len(viol)}"
          f" | after power loss: {after}")
    if ack is True and lost:
        shown += 1
sys.stdout.flush()
os._exit(1 if shown else 0)
