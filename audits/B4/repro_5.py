#!/venv/bin/python
"""repro_5  [C16, low]  The table root directory (and any parent directories that
create_table had to create) is made with os.makedirs and its entry in the parent directory
is never persisted: no operation ever fsyncs the parent of the table root.  In the power-loss
model (un-fsynced directory entries are dropped) a power loss after create_table() and any
number of ACKNOWLEDGED commits loses the whole table, pointer and data alike.

Run: PYTHONPATH=/tmp/seedwt/B4/src /venv/bin/python repro_5.py   (exit 1 = defect shown)
"""
import logging, os, sys, tempfile
sys.path.insert(0, os.path.dirname(os.path.abspath(__file__)))
logging.disable(logging.CRITICAL)
from harness import make_schema
from datashard import create_table

base = os.path.realpath(tempfile.mkdtemp(prefix="b4r5_"))     # pre-existing, durable
root = os.path.join(base, "warehouse", "db", "tbl")            # warehouse/ and db/ do not exist yet
synced_dirs = set()
real_fsync = os.fsync
def rec_fsync(fd):
    p = os.readlink(f"/proc/self/fd/{fd}")
    if os.path.isdir(p):
        synced_dirs.add(p)
    return real_fsync(fd)
os.fsync = rec_fsync
t = create_table(root, schema=make_schema())
acks = [t.append_records([{"id": i, "v": "x"}]) for i in range(3)]
os.fsync = real_fsync
print("acknowledged commits:", acks)
print("directories fsynced by the library:", sorted(os.path.relpath(d, base) for d in synced_dirs))
need = [base, os.path.join(base, "warehouse"), os.path.join(base, "warehouse", "db")]
missing = [os.path.relpath(d, base) for d in need if d not in synced_dirs]
print("directories holding the entries warehouse/, db/, tbl/ that were NEVER fsynced:", missing)
print("=> after power loss the path", os.path.relpath(root, base), "may not exist at all")
sys.stdout.flush()
os._exit(1 if missing and all(acks) else 0)
