#!/venv/bin/python
"""repro_3  [C04]  non-CAS S3 backend (DATASHARD_S3_USE_CONDITIONAL_WRITES=false):
a SINGLE request failure on the lock path leaks the lock object, and the table is not
writable afterwards (every commit fails with TimeoutError until the 60 s lease lapses;
the acquire timeout is 30 s < lease).

  a) lock PUT raises AFTER its effect (the classic ambiguous PUT)      -> commit raises, lock leaked
  b) one transient error on the read-back GET in _try_acquire (before effect) -> same
  c) KeyboardInterrupt right after the lock PUT landed                  -> same (process survives)
  d) one transient error on the GET in release()                       -> commit SUCCEEDS, lock leaked

In all cases provider.is_locked is False, so release() is a no-op / already ran: nobody will
ever delete the object.  Virtual clock: no real waiting.

Run: PYTHONPATH=/tmp/seedwt/B4/src /venv/bin/python repro_3.py   (exit 1 = defect shown)
"""
import datetime as _dt
import logging
import os
import sys
import time

sys.path.insert(0, os.path.dirname(os.path.abspath(__file__)))
logging.disable(logging.CRITICAL)
import fake_s3
from fake_s3 import client_error

# ---- virtual clock -------------------------------------------------------------------
CLOCK = [time.time()]
time.time = lambda: CLOCK[0]
time.monotonic = lambda: CLOCK[0]
def _sleep(s):
    CLOCK[0] += s
time.sleep = _sleep
_RealDT = _dt.datetime
class _VDT(_RealDT):
    @classmethod
    def now(cls, tz=None):
        return _RealDT.fromtimestamp(CLOCK[0], tz)
_dt.datetime = _VDT

from harness import make_schema
from datashard import create_table, load_table

LOCK = "tbl/.locks/metadata.lock"


class VS3(fake_s3.FakeS3):
    def _ts(self):
        return _RealDT.fromtimestamp(CLOCK[0], _dt.timezone.utc)


def scenario(name, match, when, exc_factory):
    s3 = VS3()
    fake_s3.install(s3, conditional=False)
    t = create_table("tbl", schema=make_schema())
    t.append_records([{"id": 1, "v": "a"}])
    fired = []

    def fault(n, op, key, kw):
        if not fired and match(op, key):
            fired.append((op, key))
            return (when, exc_factory(op))
        return None
    s3.fault = fault
    t0 = CLOCK[0]
    try:
        t.append_records([{"id": 2, "v": "b"}])
        outcome = "returned True"
    except BaseException as e:
        outcome = f"raised {type(e).__name__}"
    s3.fault = None
    leaked = LOCK in s3.objects
    owner = s3.objects[LOCK][0].decode() if leaked else None
    lp = t.metadata_manager.lock_provider
    print(f"[{name}] fault at {fired}: commit {outcome}; lock object still present: {leaked}; "
          f"owner is the finished provider: {owner == lp.lock_id}; provider.is_locked={lp.is_locked}")
    # a second writer (fresh handle, default timeouts) right afterwards
    t1 = CLOCK[0]
    try:
        load_table("tbl").append_records([{"id": 3, "v": "c"}])
        nxt = "ok"
    except Exception as e:
        nxt = f"{type(e).__name__}: {str(e)[:70]}"
    print(f"      next commit from a fresh handle: {nxt}   (virtual seconds spent: {CLOCK[0] - t1:.0f})")
    rows = sorted(r["id"] for r in load_table("tbl").scan())
    print(f"      rows now: {rows}")
    return leaked and nxt.startswith("TimeoutError")


seen = {"put": 0}
def lock_put(op, key):
    return op == "put_object" and key == LOCK
def lock_get(op, key):
    return op == "get_object" and key == LOCK
def release_get():
    st = {"n": 0}
    def m(op, key):
        if op == "get_object" and key == LOCK:
            st["n"] += 1
            return st["n"] == 3        # 1 = acquire read-back, 2 = is_held fence, 3 = release
        return False
    return m

err = lambda op: client_error("InternalError", op, 500)
res = [
    scenario("a: lock PUT fails after effect", lock_put, "after", err),
    scenario("b: transient read-back GET error", lock_get, "before", err),
    scenario("c: KeyboardInterrupt after lock PUT", lock_put, "after", lambda op: KeyboardInterrupt()),
    scenario("d: transient GET error in release()", release_get(), "before", err),
]
sys.stdout.flush()
os._exit(1 if any(res) else 0)
