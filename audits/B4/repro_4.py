#!/venv/bin/python
"""repro_4  [C03, C04]  The metadata file of a dead (crashed / interrupted / ambiguous)
commit is never removed by garbage_collect(), although GC removes everything that file
references.  It stays in metadata/ carrying the HIGHEST version number, so the documented
"the hint is only a hint" recovery (hint missing / unreadable -> scan v*.metadata.json)
adopts it:
   - before GC : the never-committed transaction becomes visible (uncommitted rows readable)
   - after  GC : the table points at deleted files -> unreadable and unwritable.
Also never collected: metadata/.tmp.*.metadata.json and <root>/.tmp.*.metadata.version-hint.text.

Schedule: 2 commits; 3rd append dies right before the pointer rename (process crash:
no cleanup code runs); reopen (pre-state, fine); GC after grace + 24 h marker abandonment;
then the hint is lost.

Run: PYTHONPATH=/tmp/seedwt/B4/src /venv/bin/python repro_4.py   (exit 1 = defect shown)
"""
import logging
import os
import shutil
import sys
import tempfile
import time

sys.path.insert(0, os.path.dirname(os.path.abspath(__file__)))
logging.disable(logging.CRITICAL)
from harness import Injector, Crash, make_schema, all_files
from datashard import create_table, load_table

base = tempfile.mkdtemp(prefix="b4r4_")
path = os.path.join(base, "tbl")
t = create_table(path, schema=make_schema())
t.append_records([{"id": 1, "v": "a"}])
t.append_records([{"id": 2, "v": "b"}])
del t

def dead_append():
    load_table(path).append_records([{"id": 1000, "v": "NEVER COMMITTED"}])

# dry run on a copy to find the step index of the os.replace onto the version hint
probe = os.path.join(base, "probe")
shutil.copytree(path, probe)
inj2 = Injector(probe)
inj2.install()
with inj2.run():
    load_table(probe).append_records([{"id": 1000, "v": "x"}])
inj2.uninstall()
k = next(n for n, name, tgt in inj2.log if name == "os.replace" and tgt.endswith("/metadata.version-hint.text"))

inj = Injector(path)
inj.install()
with inj.run("crash", k):                 # dies BEFORE the rename: pointer not advanced
    try:
        dead_append()
    except Crash:
        pass
inj.uninstall()

hint = open(os.path.join(path, "metadata.version-hint.text")).read()
rows = sorted(r["id"] for r in load_table(path).scan())
print("after crash: hint =", hint, "rows =", rows, "(pre-state, correct)")
dead_md = [f for f in all_files(path) if f.startswith("metadata/v3-")]
print("dead commit's metadata file:", dead_md)

# (1) hint lost BEFORE gc: recovery adopts the dead commit
img = os.path.join(base, "hintlost_before_gc")
shutil.copytree(path, img)
os.remove(os.path.join(img, "metadata.version-hint.text"))
rows1 = sorted(r["id"] for r in load_table(img).scan())
print("hint lost before GC -> rows =", rows1)

# (2) GC after grace + 24h abandonment
old = time.time() - 3 * 86400
for d, _, fs in os.walk(path):
    for f in fs:
        os.utime(os.path.join(d, f), (old, old))
stats = load_table(path).garbage_collect(grace_period_ms=3600_000)
left = [f for f in all_files(path) if f.startswith("metadata/v3-") or "/.tmp." in "/" + f]
print("GC deleted:", stats, "| dead-op leftovers still present:", left)
rows2 = sorted(r["id"] for r in load_table(path).scan())
print("rows after GC (hint intact):", rows2)
os.remove(os.path.join(path, "metadata.version-hint.text"))
try:
    rows3 = sorted(r["id"] for r in load_table(path).scan())
    broken = False
    print("hint lost after GC -> rows =", rows3)
except Exception as e:
    broken = True
    print("hint lost after GC -> scan FAILS:", type(e).__name__, str(e)[:140])
try:
    load_table(path).append_records([{"id": 5, "v": "e"}])
    print("append afterwards ok")
except Exception as e:
    print("append afterwards FAILS:", type(e).__name__, str(e)[:140])

defect = bool(left) and (1000 in rows1 or broken)
sys.stdout.flush()
os._exit(1 if defect else 0)
