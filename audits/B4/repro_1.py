#!/venv/bin/python
"""repro_1  [C16]  append_files() of a pre-built data file: the version pointer is advanced
(and the commit acknowledged) although the data file's content was never fsynced and its
directory entries (data/<file>, and data/<subdir>) were never persisted.  A power loss
after the acknowledged commit leaves a pointer to a missing / empty data file.

Run: PYTHONPATH=/tmp/seedwt/B4/src /venv/bin/python repro_1.py   (exit 1 = defect shown)
"""
import logging
import os
import sys
import tempfile

sys.path.insert(0, os.path.dirname(os.path.abspath(__file__)))
logging.disable(logging.CRITICAL)
from plmodel import PowerLossTracer
from harness import make_schema
from datashard import create_table, load_table, DataFile, FileFormat
import pyarrow as pa
import pyarrow.parquet as pq

base = tempfile.mkdtemp(prefix="b4r1_")
path = os.path.join(base, "tbl")
tr = PowerLossTracer(path)
tr.install()
t = create_table(path, schema=make_schema())
t.append_records([{"id": 1, "v": "a"}])          # library-written file: durable (control)
n_ctrl = len([v for v in tr.violations if v[2].startswith("data/")])

# the user builds data files inside the table, the normal way (no fsync), then registers them
arrow_schema = t.file_manager.data_file_manager.create_arrow_schema(make_schema())
for rel in ("data/prebuilt.parquet", "data/part=1/p2.parquet"):
    full = os.path.join(path, rel)
    os.makedirs(os.path.dirname(full), exist_ok=True)
    pq.write_table(pa.Table.from_pylist([{"id": 7, "v": rel}], schema=arrow_schema), full)
ok = t.append_data([
    DataFile(file_path="/data/prebuilt.parquet", file_format=FileFormat.PARQUET,
             partition_values={}, record_count=1, file_size_in_bytes=1),
    DataFile(file_path="/data/part=1/p2.parquet", file_format=FileFormat.PARQUET,
             partition_values={}, record_count=1, file_size_in_bytes=1),
])
tr.uninstall()
print("append_files commit acknowledged:", ok)
bad = [v for v in tr.violations if v[2].startswith("data/")]
print("control (append_records) data-file violations:", n_ctrl)
for flip, hint, rel, why in bad:
    print(f"  pointer flip #{flip} -> {hint}: {rel}: " + "; ".join(why))

# worst-case image after power loss (post acknowledgement)
img = os.path.join(base, "after_power_loss")
tr.crash_image(img)
try:
    rows = load_table(img).scan()
    print("scan after power loss:", rows)
    broken = False
except Exception as e:
    print("scan after power loss FAILS:", type(e).__name__, str(e)[:160])
    broken = True
sys.stdout.flush()
os._exit(1 if (bad and broken) else 0)
