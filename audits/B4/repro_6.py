#!/venv/bin/python
"""repro_6  [C04, minor]  LocalStorageBackend.write_file never closes the temp-file
descriptor when a step before os.close fails (os.write / os.fsync error): every failed
write leaks one fd (the temp file itself is removed).  A writer that keeps retrying on a
sick disk (ENOSPC/EIO) runs into EMFILE, after which nothing - including reads of a
healthy table - works in that process.  A KeyboardInterrupt in the same window additionally
leaves the .tmp.* file behind (in metadata/ and the table root GC never removes it).

Run: PYTHONPATH=/tmp/seedwt/B4/src /venv/bin/python repro_6.py   (exit 1 = defect shown)
"""
import errno, logging, os, sys, tempfile
sys.path.insert(0, "/tmp/seedwt/B4/src")
logging.disable(logging.CRITICAL)
from datashard.storage_backend import LocalStorageBackend

root = tempfile.mkdtemp(prefix="b4r6_")
be = LocalStorageBackend(root)
be.write_file("metadata/ok.json", b"{}")
nfd = lambda: len(os.listdir("/proc/self/fd"))
before = nfd()
real_fsync = os.fsync
def bad_fsync(fd):
    raise OSError(errno.EIO, "injected")
os.fsync = bad_fsync
fails = 0
for i in range(50):
    try:
        be.write_file(f"metadata/x{i}.json", b"{}")
    except OSError:
        fails += 1
os.fsync = real_fsync
after = nfd()
print(f"failed writes: {fails}; open fds before={before} after={after}; leaked={after - before}")
print("temp files left:", [f for f in os.listdir(os.path.join(root, 'metadata')) if f.startswith('.tmp.')])
sys.exit(1 if after - before >= fails else 0)
