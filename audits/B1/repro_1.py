#!/usr/bin/env python
"""repro_1: snapshot retention (datashard.snapshot.retention-count) selects by
snapshot TIMESTAMP, not by commit order.  With a writer whose clock is behind
(second host with skewed clock / NTP step back), retention=N keeps the N stale
snapshots with the highest timestamps and expires the snapshot that was
committed most recently (the direct predecessor of the current one).

Exit 1 when the defect shows.
"""
import os, sys, shutil, copy, logging, tempfile
sys.path.insert(0, "/tmp/seedwt/B1/src")
logging.disable(logging.CRITICAL)
import datashard as ds
from datashard.data_structures import Schema
from datashard import snapshot_manager as sm_mod, metadata_manager as mm_mod

NOW = [1_700_000_000_000]


class _N:
    def timestamp(self):
        return NOW[0] / 1000.0


class FakeDT:
    @staticmethod
    def now():
        return _N()

    @staticmethod
    def fromtimestamp(x):
        import datetime
        return datetime.datetime.fromtimestamp(x)


sm_mod.datetime = FakeDT   # the wall clock the library stamps snapshots with
mm_mod.datetime = FakeDT

root = tempfile.mkdtemp(dir="/tmp/seedout/B1/tmp")
try:
    schema = Schema(schema_id=0, fields=[{"id": 1, "name": "id", "type": "long"}])
    t = ds.create_table(os.path.join(root, "t"), schema=schema)
    base = t.metadata_manager.refresh()
    new = copy.deepcopy(base)
    new.properties["datashard.snapshot.retention-count"] = "2"
    t.metadata_manager.commit(base, new)

    order = []

    def append(i):
        t.append_records([{"id": i}])
        order.append(t.current_snapshot().snapshot_id)

    # host A, correct clock
    for i in range(3):
        NOW[0] += 1000
        append(i)
    # host B: clock two minutes behind (or NTP stepped the clock back)
    NOW[0] -= 120_000
    for i in range(3, 6):
        NOW[0] += 1000
        append(i)

    md = t.metadata_manager.refresh()
    retained = [order.index(s.snapshot_id) + 1 for s in md.snapshots]
    retained.sort()
    expected = [5, 6]  # the 2 most recently committed (S6 is current)
    print("commit order S1..S6, retention-count=2")
    print("retained (by commit index):", retained, " expected:", expected)
    pred = order[4]
    pred_alive = t.snapshot_by_id(pred) is not None
    print("direct predecessor S5 of the current snapshot still retained:", pred_alive)
    cur = t.current_snapshot()
    print("current.parent ->", (order.index(cur.parent_snapshot_id) + 1) if cur.parent_snapshot_id in order else cur.parent_snapshot_id)
    if retained != expected:
        print("DEFECT: retention kept stale snapshots", [r for r in retained if r not in expected],
              "and expired more recently committed ones", [e for e in expected if e not in retained])
        sys.exit(1)
    sys.exit(0)
finally:
    shutil.rmtree(root, ignore_errors=True)
