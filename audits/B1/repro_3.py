#!/usr/bin/env python
"""repro_3: a garbage collection with a short/zero grace period deletes the
files of a commit that STARTS after the collector has read the in-flight
markers and LANDS after the collector has read the table metadata (i.e. while
the collector is still computing reachability / before it lists data/ and
metadata/manifests/).  Such a commit is in neither of the collector's views:
its markers did not exist yet at step 0 and are already removed again, and its
snapshot is not in the metadata version the collector read.  With
grace_period_ms=0 (used by the library's own tests and claimed safe against
concurrent commits: "a concurrent GC with a zero grace period must not delete
them") the data file, the manifests and the manifest list of the ACKNOWLEDGED
commit are deleted: the current snapshot becomes unreadable, the rows are lost.

Schedule (single process, two handles, deterministic):
  GC(handle A): load markers -> read hint/metadata -> [first manifest-list read]
       <- here handle B runs ONE complete, successful commit
  GC continues: list data/, metadata/manifests/ -> delete "orphans"

Variants: plain append; delete_files (rewrites a manifest: the rewritten manifest
of the new current snapshot is deleted).

Exit 1 when the defect shows.
"""
import os, sys, shutil, logging, tempfile, time
sys.path.insert(0, "/tmp/seedwt/B1/src")
logging.disable(logging.CRITICAL)
import datashard as ds
from datashard.data_structures import Schema

schema = Schema(schema_id=0, fields=[{"id": 1, "name": "id", "type": "long"}])
root = tempfile.mkdtemp(dir="/tmp/seedout/B1/tmp")
bad = []


def scenario(name, concurrent_commit, grace_ms=0, slow_s=0.01):
    path = os.path.join(root, name)
    a = ds.create_table(path, schema=schema)
    a.append_records([{"id": 1}])
    a.append_records([{"id": 2}])
    b = ds.load_table(path)                      # the concurrent writer
    before = {s["snapshot_id"] for s in a.snapshots()}

    fm = a.file_manager
    orig = fm.read_manifest_list_file
    fired = []

    def hooked(p):
        # first manifest-list read of the collector = right after its metadata read
        if not fired:
            fired.append(1)
            ack = concurrent_commit(b)
            fired.append(ack)
            time.sleep(slow_s)   # the rest of the reachability computation
        return orig(p)

    fm.read_manifest_list_file = hooked
    try:
        stats = a.garbage_collect(grace_period_ms=grace_ms)
    finally:
        del fm.read_manifest_list_file
    print(f"[{name}] concurrent commit acknowledged: {fired[1]!r}; gc stats: {stats}")

    fresh = ds.load_table(path)
    try:
        rows = sorted(r["id"] for r in fresh.scan())
        print(f"[{name}] scan after gc: {rows}")
    except Exception as e:
        print(f"[{name}] scan after gc FAILS: {type(e).__name__}: {str(e)[:160]}")
        bad.append(name)
    # older retained snapshots are still fine - only the new one is destroyed
    for s in fresh.metadata_manager.refresh().snapshots:
        ok = fresh.storage.exists(s.manifest_list.lstrip("/"))
        tag = "new" if s.snapshot_id not in before else "old"
        print(f"[{name}]   snapshot {s.snapshot_id} ({tag}) manifest list exists: {ok}")


def do_append(tbl):
    return tbl.append_records([{"id": 3}])


def do_delete(tbl):
    victim = tbl._get_all_data_files()[0].file_path
    with tbl.new_transaction() as tx:
        tx.delete_files([victim])
        # add one file so the rewritten state is not empty
        tx.append_data([{"id": 4}])
        return tx.commit()


try:
    scenario("append", do_append)
    scenario("delete_rewrite", do_delete)
    # not specific to 0: any grace period shorter than the time the collector needs
    # between reading the metadata and listing the directories (many manifests on S3)
    scenario("append_grace200ms_slow_gc", do_append, grace_ms=200, slow_s=0.35)
    if bad:
        print("DEFECT: GC deleted files of an acknowledged concurrent commit in:", bad)
        sys.exit(1)
    sys.exit(0)
finally:
    shutil.rmtree(root, ignore_errors=True)
