#!/usr/bin/env python
"""repro_4: in a multi-operation transaction the queue order of operations is
ignored: all delete_files are applied to the BASE snapshot's manifests only and
all append_files are added afterwards.  A transaction [append_files(F),
delete_files(F)] therefore commits successfully with F IN the table (the named
file is not removed, no error), i.e. the result equals neither the serial
application of the queued operations nor a rejected transaction.

Exit 1 when the defect shows.
"""
import os, sys, shutil, logging, tempfile, dataclasses
sys.path.insert(0, "/tmp/seedwt/B1/src")
logging.disable(logging.CRITICAL)
import datashard as ds
from datashard.data_structures import Schema, FileFormat

schema = Schema(schema_id=0, fields=[{"id": 1, "name": "id", "type": "long"}])
root = tempfile.mkdtemp(dir="/tmp/seedout/B1/tmp")
try:
    t = ds.create_table(os.path.join(root, "t"), schema=schema)
    t.append_records([{"id": 1}])
    df = t.file_manager.data_file_manager.write_data_file(
        file_path="data/staged.parquet", records=[{"id": 2}], iceberg_schema=schema,
        file_format=FileFormat.PARQUET, partition_values={})
    df = dataclasses.replace(df, file_path="data/staged.parquet")
    with t.new_transaction() as tx:
        tx.append_files([df])                      # op 1: add F
        tx.delete_files(["data/staged.parquet"])   # op 2: remove F again
        ok = tx.commit()
    rows = sorted(r["id"] for r in t.scan())
    files = sorted(f.file_path for f in t._get_all_data_files())
    print("commit returned", ok, "operation:", t.current_snapshot().operation)
    print("rows:", rows, "files:", files)
    if 2 in rows:
        print("DEFECT: delete_files(F) queued after append_files(F) was silently ignored; F is in the table")
        sys.exit(1)
    sys.exit(0)
finally:
    shutil.rmtree(root, ignore_errors=True)
