#!/usr/bin/env python
"""repro_2: write.metadata.previous-versions-max <= 0 disables trimming of the
metadata log altogether: the log then grows by one entry per commit without any
bound (it even exceeds the default cap of 100 that applies when the property is
absent or unparsable).  Every metadata file carries the whole log, so metadata
size grows O(n) per commit / O(n^2) on storage.

Exit 1 when the defect shows.
"""
import os, sys, shutil, copy, logging, tempfile
sys.path.insert(0, "/tmp/seedwt/B1/src")
logging.disable(logging.CRITICAL)
import datashard as ds
from datashard.data_structures import Schema

root = tempfile.mkdtemp(dir="/tmp/seedout/B1/tmp")
try:
    schema = Schema(schema_id=0, fields=[{"id": 1, "name": "id", "type": "long"}])
    t = ds.create_table(os.path.join(root, "t"), schema=schema)

    def setprop(v):
        base = t.metadata_manager.refresh()
        new = copy.deepcopy(base)
        new.properties["write.metadata.previous-versions-max"] = v
        t.metadata_manager.commit(base, new)

    bad = False
    for v in ("0", "-1"):
        setprop(v)
        # metadata-only commits are enough (and fast): 110 of them
        for i in range(110):
            base = t.metadata_manager.refresh()
            new = copy.deepcopy(base)
            new.properties["k"] = str(i)
            t.metadata_manager.commit(base, new)
        n = len(t.metadata_manager.refresh().metadata_log)
        print(f"previous-versions-max={v!r}: metadata_log has {n} entries (default cap is 100)")
        if n > 100:
            bad = True
    if bad:
        print("DEFECT: configured bound <= 0 means NO bound (not 0, not 1, not the default 100)")
        sys.exit(1)
    sys.exit(0)
finally:
    shutil.rmtree(root, ignore_errors=True)
