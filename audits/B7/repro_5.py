"""C20 / CAS contract (low): write_file_cas(path, content, etag) on an object that was DELETED
since the etag was read does not raise CASConflictError ("precondition failed: current state is
not the one you read") but a raw ClientError NoSuchKey - S3 answers If-Match on an absent key
with 404, and storage_backend.py:789-795 maps only 412/409 codes. MetadataManager._write_version_hint
(metadata_manager.py:386-389) then reports AmbiguousCommitError for a write that definitely did
not happen, instead of the clean conflict -> refresh -> retry path.

Exit 1 = defect shown.
"""
import os, sys
sys.path.insert(0, os.path.dirname(os.path.abspath(__file__)))
from fake_s3 import make_backend
from datashard.storage_backend import CASConflictError

be, fake = make_backend(prefix="p")
be.write_file("metadata.version-hint.text", b"v1.metadata.json")
_, etag = be.read_file_with_etag("metadata.version-hint.text")

# control: changed object -> CASConflictError
be.write_file("metadata.version-hint.text", b"v2.metadata.json")
try:
    be.write_file_cas("metadata.version-hint.text", b"v9", etag); print("control: no error?!"); sys.exit(2)
except CASConflictError:
    print("control (object changed): CASConflictError  - ok")

be.delete_file("metadata.version-hint.text")
try:
    be.write_file_cas("metadata.version-hint.text", b"v9", etag)
    print("no error"); sys.exit(2)
except CASConflictError:
    print("object deleted: CASConflictError - ok"); sys.exit(0)
except Exception as e:
    print(f"object deleted: {type(e).__name__}: {e}")
    print("DEFECT: a lost CAS race (object gone) is not reported as CASConflictError")
    sys.exit(1)
