"""In-memory, strongly consistent S3 fake at the HTTP layer of a REAL botocore client.

A `before-send` hook answers every request, so the real botocore serializer,
parser, paginator and error mapping are in the picture (NoSuchKey on GET, "404"
on HEAD, 412 on conditional PUT, 416 on unsatisfiable ranges ...).

    be, fake = make_backend(prefix="pfx")   # S3StorageBackend + FakeS3
    fake.requests  -> list of dicts (method, key, range, ...)
"""
import hashlib
import io
import time
import urllib.parse
from xml.sax.saxutils import escape

from botocore.awsrequest import AWSResponse


class _Raw:
    def __init__(self, data: bytes):
        self._b = io.BytesIO(data)

    def read(self, amt=None, **kw):
        return self._b.read() if amt is None else self._b.read(amt)

    def stream(self, amt=1024, decode_content=None):
        while True:
            c = self._b.read(amt)
            if not c:
                return
            yield c

    def close(self):
        pass

    def release_conn(self):
        pass


class FakeS3:
    def __init__(self, bucket="b", page_size=3):
        self.bucket = bucket
        self.objects = {}  # key -> (bytes, etag, mtime)
        self.requests = []
        self.page_size = page_size  # server-side max page (forces pagination)
        self.clock = 1_700_000_000.0
        self.hook = None  # hook(req_dict) -> None | AWSResponse | raises

    # -- helpers ----------------------------------------------------------
    def _resp(self, url, status, headers=None, body=b""):
        h = {"x-amz-request-id": "R", "Content-Length": str(len(body))}
        h.update(headers or {})
        return AWSResponse(url, status, h, _Raw(body))

    def _err(self, url, status, code, msg="", head=False):
        if head:
            return self._resp(url, status)
        body = (
            f'<?xml version="1.0" encoding="UTF-8"?><Error><Code>{code}</Code>'
            f"<Message>{escape(msg or code)}</Message><RequestId>R</RequestId></Error>"
        ).encode()
        return self._resp(url, status, {"Content-Type": "application/xml"}, body)

    def put(self, key, data):
        self.clock += 1.0
        etag = '"' + hashlib.md5(data).hexdigest() + '"'
        self.objects[key] = (bytes(data), etag, self.clock)
        return etag

    # -- the hook -----------------------------------------------------------
    def __call__(self, request, **kwargs):
        url = request.url
        u = urllib.parse.urlsplit(url)
        path = urllib.parse.unquote(u.path)
        q = urllib.parse.parse_qs(u.query, keep_blank_values=True)
        # path-style: /bucket/key
        assert path.startswith("/" + self.bucket), path
        key = path[len(self.bucket) + 2:]
        hdr = {k.lower(): (v.decode() if isinstance(v, bytes) else v) for k, v in request.headers.items()}
        rec = {"method": request.method, "key": key, "range": hdr.get("range"), "query": q,
               "if-match": hdr.get("if-match"), "if-none-match": hdr.get("if-none-match")}
        self.requests.append(rec)
        if self.hook is not None:
            r = self.hook(rec)
            if r is not None:
                return r
        m = request.method
        if m == "GET" and key == "" and "list-type" in q:
            return self._list(url, q)
        if m == "PUT":
            body = request.body
            if hasattr(body, "read"):
                body = body.read()
            if body is None:
                body = b""
            if isinstance(body, str):
                body = body.encode()
            cur = self.objects.get(key)
            if hdr.get("if-none-match") == "*" and cur is not None:
                return self._err(url, 412, "PreconditionFailed")
            if "if-match" in hdr:
                if cur is None:
                    return self._err(url, 404, "NoSuchKey")
                if cur[1] != hdr["if-match"]:
                    return self._err(url, 412, "PreconditionFailed")
            etag = self.put(key, body)
            return self._resp(url, 200, {"ETag": etag})
        if m in ("GET", "HEAD"):
            cur = self.objects.get(key)
            head = m == "HEAD"
            if cur is None:
                return self._err(url, 404, "NoSuchKey", "The specified key does not exist.", head)
            data, etag, mtime = cur
            lm = time.strftime("%a, %d %b %Y %H:%M:%S GMT", time.gmtime(mtime))
            h = {"ETag": etag, "Last-Modified": lm, "Accept-Ranges": "bytes"}
            rng = hdr.get("range")
            status = 200
            total = len(data)
            if rng and not head:
                assert rng.startswith("bytes="), rng
                a, b = rng[6:].split("-")
                if a == "":
                    n = int(b)
                    first, last = max(0, total - n), total - 1
                    if n == 0 or total == 0:
                        return self._err(url, 416, "InvalidRange")
                else:
                    first = int(a)
                    last = int(b) if b != "" else total - 1
                    if first >= total or last < first:
                        rec["unsatisfiable"] = True
                        return self._err(url, 416, "InvalidRange", "The requested range is not satisfiable")
                    if last > total - 1:
                        rec["overlong"] = True
                        last = total - 1
                data = data[first:last + 1]
                h["Content-Range"] = f"bytes {first}-{last}/{total}"
                status = 206
            if head:
                r = self._resp(url, 200, h)
                r.headers["Content-Length"] = str(total)
                return r
            return self._resp(url, status, h, data)
        if m == "DELETE":
            self.objects.pop(key, None)
            return self._resp(url, 204)
        raise AssertionError(f"unhandled {m} {url}")

    def _list(self, url, q):
        prefix = q.get("prefix", [""])[0]
        maxk = min(int(q.get("max-keys", ["1000"])[0]), self.page_size)
        token = q.get("continuation-token", [None])[0]
        enc = q.get("encoding-type", [None])[0]
        keys = sorted(k for k in self.objects if k.startswith(prefix))
        if token is not None:
            keys = [k for k in keys if k > token]
        page, rest = keys[:maxk], keys[maxk:]

        def e(s):
            return escape(urllib.parse.quote(s, safe="/") if enc == "url" else s)

        parts = ['<?xml version="1.0" encoding="UTF-8"?>',
                 '<ListBucketResult xmlns="http://s3.amazonaws.com/doc/2006-03-01/">',
                 f"<Name>{self.bucket}</Name><Prefix>{e(prefix)}</Prefix>",
                 f"<KeyCount>{len(page)}</KeyCount><MaxKeys>{maxk}</MaxKeys>",
                 f"<IsTruncated>{'true' if rest else 'false'}</IsTruncated>"]
        if enc:
            parts.append(f"<EncodingType>{enc}</EncodingType>")
        if rest:
            parts.append(f"<NextContinuationToken>{escape(page[-1])}</NextContinuationToken>")
        for k in page:
            data, etag, mtime = self.objects[k]
            lm = time.strftime("%Y-%m-%dT%H:%M:%S.000Z", time.gmtime(mtime))
            parts.append(f"<Contents><Key>{e(k)}</Key><LastModified>{lm}</LastModified>"
                         f"<ETag>{escape(etag)}</ETag><Size>{len(data)}</Size>"
                         f"<StorageClass>STANDARD</StorageClass></Contents>")
        parts.append("</ListBucketResult>")
        return self._resp(url, 200, {"Content-Type": "application/xml"}, "".join(parts).encode())


def make_backend(prefix="", page_size=3, conditional=True):
    import logging
    logging.disable(logging.CRITICAL)
    from datashard.storage_backend import S3StorageBackend

    be = S3StorageBackend(bucket="b", endpoint_url="http://fake.invalid:9000", access_key="AK",
                          secret_key="SK", prefix=prefix, use_conditional_writes=conditional)
    fake = FakeS3("b", page_size=page_size)
    be.s3.meta.events.register_first("before-send.s3.*", fake)
    return be, fake


class SleepRecorder:
    """Replace time.sleep by a recorder (virtual time)."""

    def __init__(self):
        self.sleeps = []

    def __enter__(self):
        self._orig = time.sleep
        time.sleep = lambda s: self.sleeps.append(s)
        return self

    def __exit__(self, *a):
        time.sleep = self._orig
