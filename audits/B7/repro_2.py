"""C20: ONE transient fault while the body of an object is streamed through
S3StorageBackend.open_file() / S3FileStream is NOT masked - although the same single fault is
masked for read_file(), read_file_with_etag() and the seekable range reader.

open_file() wraps only get_object() (which returns after the response HEADERS) in with_s3_retry;
S3FileStream.read() (storage_backend.py:476-478) reads the body with no retry / resume.
Every manifest, manifest-list and checksum read of the library goes through open_file(), so a
single connection reset / read timeout in the middle of a manifest fails the scan, and
FileManager.read_manifest_file() reports it as "Could not parse manifest file ... (tried Avro and
JSON)" - a corruption diagnosis for a healthy object.

Exit 1 = defect shown.
"""
import os, sys
sys.path.insert(0, os.path.dirname(os.path.abspath(__file__)))
import urllib3.exceptions as u3
from botocore.awsrequest import AWSResponse
from fake_s3 import make_backend, SleepRecorder, _Raw
from datashard.file_manager import FileManager
from datashard.data_structures import DataFile, FileFormat
from datashard.integrity import IntegrityChecker


class BrokenRaw(_Raw):
    """Body that delivers `after` bytes and then fails like a dropped connection."""
    def __init__(self, data, exc, after):
        super().__init__(data); self.exc, self.after, self.n = exc, after, 0
    def read(self, amt=None, **kw):
        # a read that would cross the break point fails as a whole (urllib3 hands out no partial chunk)
        if amt is None or self.n + amt > self.after:
            raise self.exc
        c = super().read(amt); self.n += len(c); return c


FAULTS = {
    "connection reset mid-body": lambda: u3.ProtocolError("Connection broken", ConnectionResetError(104, "reset by peer")),
    "read timeout mid-body": lambda: u3.ReadTimeoutError(None, "http://x", "Read timed out."),
}

be, fake = make_backend(prefix="p")
fm = FileManager("t", None, be)
files = [DataFile(file_path=f"/data/f{i}.parquet", file_format=FileFormat.PARQUET, partition_values={},
                  record_count=1, file_size_in_bytes=10) for i in range(300)]
mpath = fm.create_manifest_file(files, snapshot_id=1, sequence_number=1).manifest_path
blob = be.read_file(mpath)
expected = [d.file_path for d in fm.read_manifest_file(mpath)]
expected_sum = IntegrityChecker.compute_checksum(blob)


def arm(exc, after):
    """exactly ONE faulty GET response, everything afterwards is healthy"""
    st = {"done": False}
    def hook(rec):
        if rec["method"] == "GET" and rec["key"].endswith(".avro") and not st["done"]:
            st["done"] = True
            return AWSResponse("http://x", 200, {"Content-Length": str(len(blob)), "ETag": '"e"'},
                               BrokenRaw(blob, exc, after))
    fake.hook = hook


def outcome(fn):
    with SleepRecorder():
        try:
            return "ok" if fn() else "WRONG RESULT"
        except Exception as e:
            return f"{type(e).__name__}: {str(e)[:90]}"


def stream_checksum():
    with be.open_file(mpath) as s:
        return IntegrityChecker.compute_checksum_from_stream(s) == expected_sum

def seekable():
    with be.open_seekable(mpath) as f:
        return f.read() == blob

bad = []
for fname, mk in FAULTS.items():
    for after in (100, len(blob) // 2):
        rows = {}
        for opname, fn in [("read_file", lambda: be.read_file(mpath) == blob),
                           ("read_file_with_etag", lambda: be.read_file_with_etag(mpath)[0] == blob),
                           ("open_seekable+read", seekable),
                           ("open_file+stream checksum", stream_checksum),
                           ("FileManager.read_manifest_file", lambda: [d.file_path for d in fm.read_manifest_file(mpath)] == expected)]:
            arm(mk(), after)
            rows[opname] = outcome(fn)
            print(f"[{fname}, after {after} bytes] {opname:32s} -> {rows[opname]}")
        for op in ("read_file", "read_file_with_etag", "open_seekable+read"):
            assert rows[op] == "ok", "control: these mask the fault"
        for op in ("open_file+stream checksum", "FileManager.read_manifest_file"):
            if rows[op] != "ok":
                bad.append((fname, after, op, rows[op]))
fake.hook = None
print()
if bad:
    print("DEFECT: a single transient fault (well inside the retry budget of 5) surfaced:")
    for b in bad:
        print("  ", b)
    sys.exit(1)
sys.exit(0)
