"""C20 (existence of exact keys only / sizes / not-found errors): the LOCAL backend answers for a
DIRECTORY name as if it were a file in get_size / get_modified_time, and fails with a
non-not-found error in read_file / open_file / delete_file, where the S3 backend (and
LocalStorageBackend.exists itself, fixed earlier for this very reason) say "no such file".

storage_backend.py:456-462 (os.path.getsize / getmtime on a directory), :224-232 (open -> IsADirectoryError),
:447-450 (os.remove on a directory -> IsADirectoryError; S3: silent no-op).

Exit 1 = defect shown.
"""
import os, sys, tempfile
sys.path.insert(0, os.path.dirname(os.path.abspath(__file__)))
from fake_s3 import make_backend, SleepRecorder
from datashard.storage_backend import LocalStorageBackend

be, _ = make_backend(prefix="p")
loc = LocalStorageBackend(tempfile.mkdtemp(dir="/dev/shm"))
for b in (be, loc):
    b.write_file("data/part=1/f.parquet", b"0123456789")

def obs(fn):
    try:
        r = fn()
        return "a float" if isinstance(r, float) else repr(r)
    except FileNotFoundError:
        return "FileNotFoundError"
    except Exception as e:
        return type(e).__name__

bad = []
with SleepRecorder():
    for name, fn in {
        "exists('data/part=1')": lambda b: b.exists("data/part=1"),
        "get_size('data/part=1')": lambda b: b.get_size("data/part=1"),
        "get_modified_time('data/part=1')": lambda b: b.get_modified_time("data/part=1"),
        "read_file('data/part=1')": lambda b: b.read_file("data/part=1"),
        "open_file('data/part=1')": lambda b: b.open_file("data/part=1"),
        "delete_file('data/part=1')": lambda b: b.delete_file("data/part=1"),
    }.items():
        l, s = obs(lambda: fn(loc)), obs(lambda: fn(be))
        print(f"{name:36s} local={l:20s} s3={s}")
        if l != s:
            bad.append(name)
if bad:
    print("DEFECT: backends disagree on", bad)
    sys.exit(1)
sys.exit(0)
