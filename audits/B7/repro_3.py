"""C20: a NOT-FOUND answer of a strongly consistent store is retried 6 times (3.1 s of back-off)
by read_file / read_file_with_etag / open_file / open_seekable / get_size / get_modified_time
before FileNotFoundError surfaces - while exists() (same 404) answers at once and the local
backend answers at once.

The op converts the 404 into FileNotFoundError INSIDE the retried closure
(storage_backend.py:677-682, 701-706, 765-770, 906-911, 926-931); FileNotFoundError is an OSError and
OSError is in RETRYABLE_EXCEPTIONS (s3_consistency.py:20); is_permanent_s3_error() only looks at
exc.response, which FileNotFoundError does not have. (The comment at s3_consistency.py:26-29
calls this deliberate for eventually consistent stores; the contract here is stated over a
strongly consistent one, where "absent" cannot heal, and exists() already does not wait.)

Exit 1 = defect shown.
"""
import os, sys, tempfile
sys.path.insert(0, os.path.dirname(os.path.abspath(__file__)))
from fake_s3 import make_backend, SleepRecorder
from datashard.storage_backend import LocalStorageBackend

be, fake = make_backend(prefix="p")
be.write_file("data/present", b"x")
loc = LocalStorageBackend(tempfile.mkdtemp(dir="/dev/shm"))
bad = []
OPS = {
    "exists (control)": lambda b: b.exists("data/missing"),
    "read_file": lambda b: b.read_file("data/missing"),
    "read_file_with_etag": lambda b: b.read_file_with_etag("data/missing"),
    "open_file": lambda b: b.open_file("data/missing"),
    "open_seekable": lambda b: b.open_seekable("data/missing"),
    "get_size": lambda b: b.get_size("data/missing"),
    "get_modified_time": lambda b: b.get_modified_time("data/missing"),
}
for name, fn in OPS.items():
    n0 = len(fake.requests)
    with SleepRecorder() as sr:
        try:
            r = repr(fn(be))
        except Exception as e:
            r = type(e).__name__
        try:
            rl = repr(fn(loc))
        except Exception as e:
            rl = type(e).__name__
    reqs, slept = len(fake.requests) - n0, round(sum(sr.sleeps), 2)
    print(f"{name:22s} local={rl:18s} s3={r:18s} s3_requests={reqs} backoff={slept}s")
    assert r == rl
    if reqs > 1:
        bad.append((name, reqs, slept))
if bad:
    print("DEFECT: not-found was retried:", bad)
    sys.exit(1)
sys.exit(0)
