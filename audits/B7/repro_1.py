"""C20: permanent S3 errors outside a hard-coded code list are retried 6x with 3.1 s of back-off
instead of surfacing at once.

with_s3_retry() treats EVERY ClientError / BotoCoreError / OSError as transient unless its
Error.Code is in PERMANENT_S3_ERROR_CODES (s3_consistency.py:30-55). The HTTP status is never
consulted, and BotoCoreError subclasses that can never heal (NoCredentialsError,
ParamValidationError) are in the retryable tuple (s3_consistency.py:20).

Real botocore client, in-memory S3 answering at the HTTP layer. Exit 1 = defect shown.
"""
import os, sys
for k in list(os.environ):
    if k.startswith("AWS_"):
        del os.environ[k]
os.environ.update(AWS_EC2_METADATA_DISABLED="true", AWS_SHARED_CREDENTIALS_FILE="/nonexistent/c",
                  AWS_CONFIG_FILE="/nonexistent/f")
sys.path.insert(0, os.path.dirname(os.path.abspath(__file__)))
from fake_s3 import make_backend, SleepRecorder, FakeS3

bad = []

def attempt(label, be, fake, fn):
    n0 = len(fake.requests)
    with SleepRecorder() as sr:
        try:
            r = ("returned", fn())
        except Exception as e:
            r = ("raised", type(e).__name__, getattr(e, "response", {}).get("Error", {}).get("Code"))
    reqs, slept = len(fake.requests) - n0, round(sum(sr.sleeps), 2)
    print(f"{label:58s} -> {r}  http_requests={reqs} backoff={slept}s sleeps={sr.sleeps}")
    return r, reqs, slept

# --- (a) 4xx answers of the service --------------------------------------------------------
CASES = [("ExpiredToken", 400), ("InvalidRequest", 400), ("InvalidArgument", 400), ("KeyTooLongError", 400),
         ("MethodNotAllowed", 405), ("AccessDenied", 403)]   # last one = control (is in the list)
for code, status in CASES:
    be, fake = make_backend(prefix="p")
    be.write_file("data/a", b"0123456789")
    fake.hook = lambda rec, c=code, s=status: fake._err("http://x", s, c, head=rec["method"] == "HEAD")
    for opname, fn in [("read_file", lambda: be.read_file("data/a")),
                       ("exists", lambda: be.exists("data/a")),
                       ("list_files", lambda: be.list_files("data")),
                       ("write_file", lambda: be.write_file("data/n", b"x")),
                       ("delete_file", lambda: be.delete_file("data/a"))]:
        r, reqs, slept = attempt(f"HTTP {status} {code}: {opname}", be, fake, fn)
        control = code == "AccessDenied"
        if control:
            assert reqs == 1 and slept == 0, "control failed"
        elif reqs > 1 or slept > 0:
            bad.append((code, opname, reqs, slept))

# --- (b) no credentials configured at all (documented fallback to the default chain) --------
import logging; logging.disable(logging.CRITICAL)
from datashard.storage_backend import S3StorageBackend
be = S3StorageBackend(bucket="b", endpoint_url="http://fake.invalid:9000")
fake = FakeS3("b"); be.s3.meta.events.register_first("before-send.s3.*", fake)
calls = {"n": 0}
orig = be.s3.head_object
def counted(*a, **k):
    calls["n"] += 1
    return orig(*a, **k)
be.s3.head_object = counted
r, reqs, slept = attempt("no credentials: exists", be, fake, lambda: be.exists("metadata.version-hint.text"))
print("   client calls:", calls["n"])
if calls["n"] > 1 or slept > 0:
    bad.append(("NoCredentialsError", "exists", calls["n"], slept))

print()
if bad:
    print("DEFECT: permanent errors were retried (code, op, attempts, seconds of back-off):")
    for b in bad:
        print("  ", b)
    sys.exit(1)
sys.exit(0)
