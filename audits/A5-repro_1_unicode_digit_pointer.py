"""C10 - a version pointer whose bytes are a non-decimal Unicode "digit"
(e.g. b"\xc2\xb2" = SUPERSCRIPT TWO) or a >4300-digit number makes every
open / create / append / collect raise ValueError instead of falling back
to recovery-by-scan. Other garbage (control cases) recovers fine.

Run: PYTHONPATH=/tmp/seedwt/A5/src /venv/bin/python repro_1.py
"""
import logging, os, shutil, sys, tempfile
logging.disable(logging.CRITICAL)
from datashard import create_table, load_table
from datashard.data_structures import Schema

schema = Schema(schema_id=0, fields=[{"id": 1, "name": "x", "type": "long", "required": False}])


def fresh():
    d = tempfile.mkdtemp(dir="/tmp", prefix="a5_r1_")
    tp = os.path.join(d, "t")
    t = create_table(tp, schema)
    t.append_records([{"x": 1}], schema=schema)
    t.append_records([{"x": 2}], schema=schema)
    return d, tp, t


def rows(t):
    return sorted(r["x"] for r in t.scan())


failures = 0
CASES = [("SUPERSCRIPT TWO b'\\xc2\\xb2'", "²".encode()),
         ("CIRCLED DIGIT ONE", "①".encode()),
         ("5000 ascii digits", b"9" * 5000),
         ("v<5000 digits>.metadata.json", b"v" + b"1" * 5000 + b".metadata.json"),
         ("control: random garbage", b"\x00\xffgarbage"),
         ("control: empty", b"")]
for label, content in CASES:
    for action in ("load_table", "create_table", "append", "garbage_collect"):
        d, tp, t = fresh()
        with open(os.path.join(tp, "metadata.version-hint.text"), "wb") as f:
            f.write(content)
        try:
            if action == "load_table":
                got, exp = rows(load_table(tp)), [1, 2]
            elif action == "create_table":
                got, exp = rows(create_table(tp, schema)), [1, 2]
            elif action == "append":
                t.append_records([{"x": 3}], schema=schema)
                got, exp = rows(load_table(tp)), [1, 2, 3]
            else:
                t.garbage_collect(grace_period_ms=0)
                got, exp = rows(load_table(tp)), [1, 2]
            ok = got == exp
            print(f"  pointer={label:32} {action:16} -> rows {got}" + ("" if ok else "   <-- WRONG"))
            failures += (not ok)
        except Exception as e:  # noqa: BLE001
            failures += 1
            print(f"  pointer={label:32} {action:16} -> {type(e).__name__}: {str(e)[:60]}   <-- DEFECT")
        shutil.rmtree(d, ignore_errors=True)
print("failures:", failures)
sys.stdout.flush()
os._exit(1 if failures else 0)
