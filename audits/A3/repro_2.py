#!/usr/bin/env python
"""
repro_2: an asynchronous KeyboardInterrupt / SystemExit at the lock-take step
boundary leaks the table's metadata lock: the interrupted call raises (table in
the pre-state, fine) but the table is NOT writable afterwards - every later
commit, from this process or any other, fails with TimeoutError for as long as
the interrupted process stays alive (REPL / notebook / service that survives
Ctrl-C or a SystemExit raised in a worker).

Root cause: the lock is taken OUTSIDE the try/finally that releases it.
  * metadata_manager.py  commit():            self.lock_provider.acquire()   <- line 157
                                               try: ... finally: release     <- line 159 / 278
    (same shape in initialize_table(), line 78/79)
  * file_lock.py _try_acquire_once(): fcntl.flock(fd, ...) succeeded, but the fd
    is only recorded two statements later (lines 113-117) and the cleanup
    handler only catches (IOError, OSError): a BaseException between the two
    leaks an fd that owns the kernel lock - nothing can ever unlock it.
  * lock_provider.py S3LockProviderBase.acquire(): by the time acquire() returns
    the heartbeat thread is already renewing the lease, so the leaked S3 lock
    does not even expire.

The interrupt is delivered deterministically at the step boundary by raising it
right after the real lock primitive returned (that is where CPython would run
the pending signal handler).

Exit code 1 when the defect manifests.
"""
import os, sys, time, tempfile, logging, subprocess, textwrap
logging.disable(logging.CRITICAL)
MODE = sys.argv[1] if len(sys.argv) > 1 else "all"
SRC = os.environ.get("PYTHONPATH", "")
bad = False

S_FIELDS = [{"id": 1, "name": "id", "type": "long", "required": True},
            {"id": 2, "name": "v", "type": "string", "required": False}]


def other_process_append(path, timeout_s):
    """Try to commit from a completely separate process."""
    code = textwrap.dedent(f"""
        import os, sys, logging; logging.disable(logging.CRITICAL)
        from datashard import load_table
        t = load_table({path!r})
        t.metadata_manager.lock_provider.lock.timeout = {timeout_s}
        try:
            t.append_records([{{"id": 777, "v": "other"}}]); print("OK")
        except BaseException as e:
            print("FAILED:", type(e).__name__, e)
        sys.stdout.flush(); os._exit(0)
    """)
    return subprocess.run([sys.executable, "-c", code], capture_output=True, text=True,
                          env=dict(os.environ, PYTHONPATH=SRC)).stdout.strip()


def local_variant(name, arm):
    global bad
    from datashard import create_table, load_table, Schema
    S = Schema(schema_id=1, fields=S_FIELDS)
    d = tempfile.mkdtemp(prefix="a3_r2_", dir="/tmp")
    t = create_table(d, S)
    t.append_records([{"id": 1, "v": "a"}])
    # keep the demo short: 2 s instead of the default 30 s acquire timeout
    t.metadata_manager.lock_provider.lock.timeout = 2.0
    disarm = arm(t)
    raised = None
    try:
        t.append_records([{"id": 2, "v": "b"}])          # interrupted commit
    except BaseException as e:
        raised = e
    disarm()
    print(f"[{name}] interrupted append raised {type(raised).__name__}; rows now "
          f"{sorted(r['id'] for r in load_table(d).scan())} (pre-state, as allowed)")
    # 1. same process, same Table object
    try:
        t.append_records([{"id": 3, "v": "c"}])
        print(f"[{name}] same process: later commit OK")
    except BaseException as e:
        bad = True
        print(f"[{name}] DEFECT same process: later commit fails: {type(e).__name__}: {e}")
    # 2. another process
    out = other_process_append(d, 2.0)
    print(f"[{name}] other process: {out}")
    if not out.startswith("OK"):
        bad = True
        print(f"[{name}] DEFECT: table not writable from other processes while this one lives")


def arm_after_flock(t):
    """KeyboardInterrupt lands right after fcntl.flock() succeeded inside FileLock."""
    import fcntl
    real = fcntl.flock
    st = {"armed": True}
    def flock(fd, op):
        r = real(fd, op)
        if st["armed"] and (op & fcntl.LOCK_EX):
            st["armed"] = False
            raise KeyboardInterrupt()
        return r
    fcntl.flock = flock
    def disarm(): fcntl.flock = real
    return disarm


def arm_after_acquire(t):
    """SystemExit lands between `self.lock_provider.acquire()` returning and `try:`."""
    lp = t.metadata_manager.lock_provider
    real = lp.acquire
    st = {"armed": True}
    def acquire():
        r = real()
        if st["armed"]:
            st["armed"] = False
            raise SystemExit(1)
        return r
    lp.acquire = acquire
    def disarm(): lp.acquire = real
    return disarm


def s3_variant():
    global bad
    sys.path.insert(0, os.path.dirname(os.path.abspath(__file__)))
    import fakes3
    fakes3.install(cas=True)
    from datashard import create_table, load_table, Schema
    import datashard.storage_backend as sb
    orig = sb.S3StorageBackend.create_lock
    # demo speed only: 2 s acquire timeout, 3 s lease (defaults: 30 s / 60 s)
    def create_lock(self, path, timeout=30.0):
        lp = orig(self, path, 2.0); lp.lease_seconds = 3; return lp
    sb.S3StorageBackend.create_lock = create_lock
    S = Schema(schema_id=1, fields=S_FIELDS)
    t = create_table("tbl", S)
    t.append_records([{"id": 1, "v": "a"}])
    disarm = arm_after_acquire(t)
    raised = None
    try:
        t.append_records([{"id": 2, "v": "b"}])
    except BaseException as e:
        raised = e
    disarm()
    print(f"[s3-cas] interrupted append raised {type(raised).__name__}; lock object present: "
          f"{'tbl/.locks/metadata.lock' in fakes3.STORE.objs}")
    time.sleep(3 * 3 + 0.5)   # three full leases later ...
    lm = fakes3.STORE.objs.get("tbl/.locks/metadata.lock")
    print(f"[s3-cas] 3 lease periods later the lock object is still there and was renewed by the "
          f"orphaned heartbeat thread: {lm is not None}")
    t2 = load_table("tbl")     # stands for any other writer: separate lock provider instance
    try:
        t2.append_records([{"id": 3, "v": "c"}])
        print("[s3-cas] later commit OK")
    except BaseException as e:
        bad = True
        print(f"[s3-cas] DEFECT: table not writable, lease never expires: {type(e).__name__}: {e}")


if MODE in ("all", "local"):
    local_variant("local/after-flock KeyboardInterrupt", arm_after_flock)
    local_variant("local/after-acquire SystemExit", arm_after_acquire)
if MODE == "all":
    # S3 part needs the boto3 fake installed before datashard builds a backend -> own process
    r = subprocess.run([sys.executable, os.path.abspath(__file__), "s3"], text=True, capture_output=True)
    print("".join(l for l in r.stdout.splitlines(True) if not l.startswith("RESULT:")), end="")
    bad = bad or r.returncode != 0
if MODE == "s3":
    s3_variant()

print("RESULT:", "DEFECT REPRODUCED" if bad else "no defect")
sys.stdout.flush()
os._exit(1 if bad else 0)
