"""In-memory S3 served at the HTTP layer of the REAL boto3/botocore client.

Nothing in botocore is replaced: requests are built, signed, retried and parsed by the
real library; only the socket send is short-circuited through botocore's public
`before-send` event, which lets a handler return the HTTP response. This keeps
botocore's built-in retry behaviour (legacy mode, 5 attempts) in the picture.
"""
import io, os, hashlib
from urllib.parse import urlsplit, parse_qs, unquote, quote
from datetime import datetime, timezone
import boto3, botocore.awsrequest
import fakes3
from fakes3 import STORE

HTTP_LOG = []          # (method, key, status)
FAULT = {"fn": None}   # fn(method, key, headers, apply) -> None | (status, headers, body)

class Raw:
    def __init__(self, b): self._b = io.BytesIO(b)
    def stream(self, amt=65536, decode_content=None):
        while True:
            c = self._b.read(amt or 65536)
            if not c: return
            yield c
    def read(self, amt=None, **kw): return self._b.read() if amt is None else self._b.read(amt)
    def readable(self): return True
    def close(self): pass

def _xml_error(code, msg=""):
    return (f'<?xml version="1.0" encoding="UTF-8"?><Error><Code>{code}</Code><Message>{msg or code}</Message>'
            f'<RequestId>1</RequestId><HostId>1</HostId></Error>').encode()

def _httpdate(dt): return dt.strftime("%a, %d %b %Y %H:%M:%S GMT")

def _serve(method, key, query, headers, body):
    objs = STORE.objs
    if method == "GET" and "list-type" in query:
        prefix = query.get("prefix", [""])[0]
        enc = query.get("encoding-type", [""])[0] == "url"
        keys = sorted(k for k in objs if k.startswith(prefix))
        parts = []
        for k in keys:
            b, e, lm = objs[k]
            parts.append(f"<Contents><Key>{quote(k) if enc else k}</Key><LastModified>{lm.strftime('%Y-%m-%dT%H:%M:%S.000Z')}</LastModified>"
                         f"<ETag>{e.replace(chr(34), '&quot;')}</ETag><Size>{len(b)}</Size><StorageClass>STANDARD</StorageClass></Contents>")
        xml = ('<?xml version="1.0" encoding="UTF-8"?><ListBucketResult xmlns="http://s3.amazonaws.com/doc/2006-03-01/">'
               f"<Name>b</Name><Prefix>{quote(prefix) if enc else prefix}</Prefix><KeyCount>{len(keys)}</KeyCount><MaxKeys>1000</MaxKeys>"
               + ("<EncodingType>url</EncodingType>" if enc else "") + "<IsTruncated>false</IsTruncated>" + "".join(parts) + "</ListBucketResult>")
        return 200, {"Content-Type": "application/xml"}, xml.encode()
    if method in ("GET", "HEAD"):
        if key not in objs:
            return 404, {"Content-Type": "application/xml"}, (b"" if method == "HEAD" else _xml_error("NoSuchKey"))
        b, e, lm = objs[key]
        h = {"ETag": e, "Last-Modified": _httpdate(lm), "Content-Type": "binary/octet-stream", "Accept-Ranges": "bytes"}
        rng = headers.get("Range")
        status = 200
        if rng and method == "GET":
            a, z = rng.split("=")[1].split("-"); a = int(a); z = int(z) if z else len(b) - 1
            h["Content-Range"] = f"bytes {a}-{z}/{len(b)}"; b = b[a:z + 1]; status = 206
        h["Content-Length"] = str(len(b))
        return status, h, (b"" if method == "HEAD" else b)
    if method == "PUT":
        cur = objs.get(key)
        inm = headers.get("If-None-Match"); im = headers.get("If-Match")
        if isinstance(inm, bytes): inm = inm.decode()
        if isinstance(im, bytes): im = im.decode()
        if inm == "*" and cur is not None:
            return 412, {"Content-Type": "application/xml"}, _xml_error("PreconditionFailed", "At least one of the pre-conditions you specified did not hold")
        if im is not None and (cur is None or cur[1] != im):
            return 412, {"Content-Type": "application/xml"}, _xml_error("PreconditionFailed", "At least one of the pre-conditions you specified did not hold")
        e = '"%s%04d"' % (hashlib.md5(body).hexdigest()[:28], next(STORE.ctr))
        objs[key] = (bytes(body), e, datetime.now(timezone.utc))
        return 200, {"ETag": e, "Content-Length": "0"}, b""
    if method == "DELETE":
        objs.pop(key, None)
        return 204, {}, b""
    return 400, {}, _xml_error("BadRequest")

def handler(request, **kw):
    u = urlsplit(request.url)
    path = unquote(u.path)
    if u.hostname.startswith("b."):
        key = path.lstrip("/")
    else:
        key = path.lstrip("/").split("/", 1)[1] if "/" in path.lstrip("/") else ""
    query = parse_qs(u.query, keep_blank_values=True)
    body = request.body
    if body is None: body = b""
    elif hasattr(body, "read"):
        pos = body.tell() if hasattr(body, "tell") else None
        data = body.read()
        if pos is not None and hasattr(body, "seek"): body.seek(pos)
        body = data
    elif isinstance(body, str): body = body.encode()
    headers = {k: (v.decode() if isinstance(v, bytes) else v) for k, v in request.headers.items()}
    def apply(): return _serve(request.method, key, query, headers, body)
    out = None
    if FAULT["fn"] is not None:
        out = FAULT["fn"](request.method, key, headers, apply)
    if out is None:
        out = apply()
    status, h, b = out
    HTTP_LOG.append((request.method, key, status))
    return botocore.awsrequest.AWSResponse(request.url, status, h, Raw(b))

def install(cas=True):
    os.environ.update({
        "DATASHARD_STORAGE_TYPE": "s3", "DATASHARD_S3_BUCKET": "b",
        "DATASHARD_S3_ENDPOINT": "http://fake.local", "DATASHARD_S3_ACCESS_KEY": "ak", "DATASHARD_S3_SECRET_KEY": "sk",
        "DATASHARD_S3_USE_CONDITIONAL_WRITES": "true" if cas else "false",
        "AWS_REQUEST_CHECKSUM_CALCULATION": "when_required", "AWS_RESPONSE_CHECKSUM_VALIDATION": "when_required",
    })
    orig = boto3.session.Session.client
    def client(self, *a, **k):
        c = orig(self, *a, **k)
        c.meta.events.register("before-send.s3.*", handler)
        return c
    boto3.session.Session.client = client
    import pyarrow.fs as pafs
    pafs.S3FileSystem = fakes3.FakeS3FileSystem     # data files still go to the same in-memory store
