#!/usr/bin/env python
"""
repro_1: LocalStorageBackend.write_file ignores the return value of os.write().

A short write (legal POSIX behaviour: file-size limit, quota, disk filling up
between the free-space pre-check and the write, ...) is not detected. The
truncated temp file is fsync'ed, renamed into place and - because no error is
raised - the version hint is then advanced to it: the commit is ACKNOWLEDGED and
the table is left pointing at a partially written metadata file.

Scenario A (no monkeypatching at all, real kernel short write):
    RLIMIT_FSIZE is lowered below the size of the next metadata JSON. CPython
    ignores SIGXFSZ, so write(2) returns a short count instead of failing.
    A metadata-only commit (delete_snapshot) then "succeeds" and bricks the table.
Scenario B (os.write wrapper returning a short count once, for the manifest):
    an append is acknowledged although its manifest is truncated.

Exit code 1 when the defect manifests.
"""
import os, sys, resource, tempfile, logging, json
logging.disable(logging.CRITICAL)
from datashard import create_table, load_table, Schema

S = Schema(schema_id=1, fields=[{"id": 1, "name": "id", "type": "long", "required": True},
                                {"id": 2, "name": "v", "type": "string", "required": False}])
bad = False

# ---------------------------------------------------------------- scenario A
d = tempfile.mkdtemp(prefix="a3_r1a_", dir="/tmp")
t = create_table(d, S)
for i in range(12):
    t.append_records([{"id": i, "v": "x"}])
rows_before = sorted(r["id"] for r in t.scan())
md = t.metadata_manager.refresh()
hint_before = open(os.path.join(d, "metadata.version-hint.text")).read()
size_before = os.path.getsize(os.path.join(d, "metadata", hint_before))
LIMIT = 4096
print(f"[A] current metadata file {hint_before}: {size_before} bytes; setting RLIMIT_FSIZE={LIMIT}")
soft, hard = resource.getrlimit(resource.RLIMIT_FSIZE)
resource.setrlimit(resource.RLIMIT_FSIZE, (LIMIT, hard))
err = None
try:
    ok = t.snapshot_manager.delete_snapshot(md.snapshots[0].snapshot_id)   # metadata-only commit
except BaseException as e:  # noqa
    ok, err = None, e
finally:
    resource.setrlimit(resource.RLIMIT_FSIZE, (soft, hard))
hint_after = open(os.path.join(d, "metadata.version-hint.text")).read()
print(f"[A] delete_snapshot returned {ok!r}, raised {err!r}")
print(f"[A] version hint: {hint_before} -> {hint_after}")
p = os.path.join(d, "metadata", hint_after)
print(f"[A] size of the file the pointer now names: {os.path.getsize(p)} bytes")
try:
    json.loads(open(p).read())
    print("[A] pointed-to metadata parses")
except Exception as e:
    print(f"[A] pointed-to metadata is TRUNCATED / unparseable: {type(e).__name__}: {e}")
try:
    t2 = load_table(d)
    rows = sorted(r["id"] for r in t2.scan())
    print("[A] table still readable, rows:", rows)
except BaseException as e:
    print(f"[A] DEFECT: table unreadable after an acknowledged commit: {type(e).__name__}: {e}")
    bad = True
try:
    load_table(d).append_records([{"id": 999, "v": "z"}])
    print("[A] table still writable")
except BaseException as e:
    print(f"[A] DEFECT: table not writable any more: {type(e).__name__}: {e}")
    bad = True

# ---------------------------------------------------------------- scenario B
d = tempfile.mkdtemp(prefix="a3_r1b_", dir="/tmp")
t = create_table(d, S)
t.append_records([{"id": 1, "v": "a"}])
real_write = os.write
state = {"armed": True}
def short_write(fd, data):
    # one short write, exactly what write(2) may legally do (e.g. ENOSPC mid-write)
    if state["armed"] and len(data) > 1000:          # the avro manifest (~1.5 KB)
        state["armed"] = False
        return real_write(fd, data[: len(data) // 2])
    return real_write(fd, data)
os.write = short_write
err = None
try:
    ok = t.append_records([{"id": 2, "v": "b"}])
except BaseException as e:
    ok, err = None, e
os.write = real_write
print(f"[B] append_records returned {ok!r}, raised {err!r} (short write injected: {not state['armed']})")
try:
    rows = sorted(r["id"] for r in load_table(d).scan())
    print("[B] rows:", rows)
    if ok and rows != [1, 2]:
        bad = True; print("[B] DEFECT: acknowledged append not readable")
except BaseException as e:
    print(f"[B] DEFECT: acknowledged commit left the table unreadable: {type(e).__name__}: {e}")
    bad = True
try:
    load_table(d).append_records([{"id": 3, "v": "c"}])
    print("[B] table still writable")
except BaseException as e:
    print(f"[B] DEFECT: table no longer accepts commits: {type(e).__name__}: {str(e)[:200]}")
    bad = True

print("RESULT:", "DEFECT REPRODUCED" if bad else "no defect")
sys.stdout.flush()
os._exit(1 if bad else 0)
