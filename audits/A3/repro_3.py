#!/usr/bin/env python
"""
repro_3: table creation is not atomic with respect to the version pointer.

initialize_table() writes metadata/v0-<rand>.metadata.json and only then the
version hint. If the process dies (or the hint write fails) in between, the v0
file stays behind, and because every open falls back to "scan metadata/ for the
highest v*.metadata.json" when the hint is missing, the half-created table is
reported as EXISTING - i.e. the post-state of the dead operation is observed
although the version pointer was never advanced (C03), and a create_table() that
RAISED a storage error nevertheless created the table (C04-style: raise + post-state).
commit() was fixed to remove the metadata file of a cleanly failed commit
(_discard_uncommitted_metadata); initialize_table() has no such cleanup, and no
opener/GC ever treats a pointer-less v0 as a leftover.

Visible consequence: the next create_table(path, schema=B) silently gets the dead
creator's schema A; appends with schema B are rejected.

Exit code 1 when the defect manifests.
"""
import os, sys, errno, tempfile, logging
logging.disable(logging.CRITICAL)
from datashard import create_table, load_table, Schema

A = Schema(schema_id=1, fields=[{"id": 1, "name": "a_id", "type": "long", "required": True}])
B = Schema(schema_id=1, fields=[{"id": 1, "name": "b_name", "type": "string", "required": True}])
bad = False
HINT = "metadata.version-hint.text"


def arm(action):
    """Run `action` at the moment the version-hint temp file is about to be renamed into place."""
    real = os.replace
    def replace(src, dst):
        if os.path.basename(dst) == HINT:
            action()
        return real(src, dst)
    os.replace = replace
    return lambda: setattr(os, "replace", real)


# ------------------------------------------------ scenario 1: crash before the pointer is written
root = tempfile.mkdtemp(prefix="a3_r3_", dir="/tmp")
p = os.path.join(root, "tbl")
pid = os.fork()
if pid == 0:
    arm(lambda: os._exit(9))          # writer process dies right before the hint rename
    try:
        create_table(p, A)
    finally:
        os._exit(0)
os.waitpid(pid, 0)
print("[crash] files left by the dead creator:",
      sorted(f for f in os.listdir(os.path.join(p, "metadata")) if f.endswith(".json")),
      "| hint exists:", os.path.exists(os.path.join(p, HINT)))
try:
    t = load_table(p)
    print("[crash] DEFECT: load_table() finds a table although the pointer was never advanced")
    bad = True
except ValueError as e:
    print("[crash] load_table():", e)
t = create_table(p, B)               # a new creator with a different schema
got = t._get_current_schema().fields
print("[crash] create_table(schema=B) -> table schema fields:", [f["name"] for f in got])
if [f["name"] for f in got] != ["b_name"]:
    bad = True
    print("[crash] DEFECT: the new creator silently inherited the dead creator's schema")
    try:
        t.append_records([{"b_name": "x"}], schema=B)
    except Exception as e:
        print(f"[crash]   and cannot use its own schema: {type(e).__name__}: {str(e)[:110]}...")

# ------------------------------------------------ scenario 2: storage error at the pointer write
root = tempfile.mkdtemp(prefix="a3_r3_", dir="/tmp")
p = os.path.join(root, "tbl")
def eio(): raise OSError(errno.EIO, "injected EIO on version-hint rename")
disarm = arm(eio)
raised = None
try:
    create_table(p, A)
except Exception as e:
    raised = e
disarm()
print(f"[fault] create_table raised: {type(raised).__name__}: {raised}")
try:
    t = load_table(p)
    md = t.metadata_manager.refresh()
    print(f"[fault] DEFECT: the call raised a storage error, yet the table now exists "
          f"(uuid {md.table_uuid[:8]}, hint exists: {os.path.exists(os.path.join(p, HINT))})")
    bad = True
except ValueError as e:
    print("[fault] load_table():", e, "(pre-state, correct)")

print("RESULT:", "DEFECT REPRODUCED" if bad else "no defect")
sys.stdout.flush()
os._exit(1 if bad else 0)
