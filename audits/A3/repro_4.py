#!/usr/bin/env python
"""
repro_4: on CAS-capable S3 the commit-point write (conditional PUT of the version
hint) is sent through a boto3 client that still has botocore's AUTOMATIC RETRIES
enabled. When the first attempt lands server-side but the response is lost
(5xx / connection reset / timeout - the classic "exception after effect"),
botocore silently re-sends the same conditional PUT; the If-Match ETag no longer
matches *because of our own first write*, S3 answers 412, and datashard classifies
this as "lost the CAS race, clean failure":

    write_file_cas  -> CASConflictError -> ConcurrentModificationException
    commit()        -> _discard_uncommitted_metadata(): DELETES the metadata file
                       the version pointer now names
    Transaction     -> treats it as a clean conflict and retries

So an outcome that is really "pointer write ambiguous/successful" is reported as
a clean conflict and a file written by the transaction - the very one the pointer
references - is deleted (C04). The table is left with a DANGLING pointer; readers
silently fall back to "highest v*.metadata.json on disk", GC refuses to run, and:

  part 2: if an orphan metadata file of the same version exists (left by any
  writer that crashed between its metadata write and the hint flip - such orphans
  are never cleaned up), the fallback picks THAT file: a dead, never-committed
  transaction becomes the base of the retried commit and its rows become visible
  (C03/C04: uncommitted files become reachable).

Real boto3/botocore are used (retry logic included); only the socket send is
served from memory via botocore's `before-send` event (see fakes3_http.py).
Exit code 1 when the defect manifests.
"""
import os, sys, logging
logging.disable(logging.CRITICAL)
sys.path.insert(0, os.path.dirname(os.path.abspath(__file__)))
import fakes3_http as fh
fh.install(cas=True)
from datashard import create_table, load_table, Schema, GarbageCollectionAborted
import datashard.metadata_manager as mm

S = Schema(schema_id=1, fields=[{"id": 1, "name": "id", "type": "long", "required": True},
                                {"id": 2, "name": "v", "type": "string", "required": False}])
HINT = "tbl/metadata.version-hint.text"
bad = False

def hint(): return fh.STORE.objs[HINT][0].decode()
def hint_dangling(): return ("tbl/metadata/" + hint()) not in fh.STORE.objs
def rows(): return sorted(r["id"] for r in load_table("tbl").scan())

class Dead(BaseException):
    """stands for the death of the writing process"""

def lose_response_of_hint_put_once(observe):
    """First conditional PUT of the hint: apply it server-side, answer 500. Later attempts: normal."""
    st = {"armed": True, "attempts": 0}
    def fn(method, key, headers, apply):
        if method == "PUT" and key == HINT and "If-Match" in headers:
            st["attempts"] += 1
            if st["armed"]:
                st["armed"] = False
                apply()                                   # the write LANDS ...
                return 500, {"Content-Type": "application/xml"}, fh._xml_error("InternalError")  # ... response lost
        if method == "DELETE" and key.endswith(".metadata.json"):
            out = apply()
            observe(key)
            return out
        return None
    fh.FAULT["fn"] = fn
    return st

# ------------------------------------------------------------------ part 1
t = create_table("tbl", S)
t.append_records([{"id": 1, "v": "a"}])
print("[1] pointer before:", hint())
seen = {}
def observe(deleted_key):
    fh.FAULT["fn"], saved = None, fh.FAULT["fn"]
    seen["deleted"] = deleted_key
    seen["pointer"] = hint()
    seen["dangling"] = hint_dangling()
    try:
        load_table("tbl").garbage_collect(grace_period_ms=0); seen["gc"] = "ran"
    except GarbageCollectionAborted as e:
        seen["gc"] = "GarbageCollectionAborted"
    fh.FAULT["fn"] = saved
st = lose_response_of_hint_put_once(observe)
raised = None
try:
    t.append_records([{"id": 2, "v": "b"}])
except BaseException as e:
    raised = e
fh.FAULT["fn"] = None
print(f"[1] HTTP attempts of the conditional hint PUT inside ONE write_file_cas call + retries: {st['attempts']}")
print(f"[1] datashard deleted {seen.get('deleted')} while the pointer was {seen.get('pointer')}"
      f" -> dangling={seen.get('dangling')}, concurrent GC: {seen.get('gc')}")
if seen.get("dangling"):
    bad = True
    print("[1] DEFECT: ambiguous pointer write misreported as clean CAS conflict; the metadata file "
          "named by the pointer was deleted")
print(f"[1] append finally returned/raised: {raised!r}; rows={rows()} pointer={hint()} dangling={hint_dangling()}")

# ------------------------------------------------------------------ part 2
fh.STORE.objs.clear()
t = create_table("tbl", S)
t.append_records([{"id": 1, "v": "a"}])
# writer W1 dies between its metadata write and the hint flip -> orphan v2-*.metadata.json
def die_at_hint(method, key, headers, apply):
    if method == "PUT" and key == HINT:
        raise Dead()
fh.FAULT["fn"] = die_at_hint
try:
    load_table("tbl").append_records([{"id": 666, "v": "never committed"}])
except Dead:
    pass
fh.FAULT["fn"] = None
fh.STORE.objs.pop("tbl/.locks/metadata.lock", None)       # the dead writer's lock lease expires
print("[2] after W1 died before the commit point: rows =", rows(), "(pre-state, correct); orphans:",
      sorted(k.rsplit('/', 1)[1] for k in fh.STORE.objs if k.endswith(".metadata.json") and "/v2-" in k))
# writer W2: same lost-response fault on its hint PUT
lose_response_of_hint_put_once(lambda k: None)
raised = None
try:
    load_table("tbl").append_records([{"id": 2, "v": "b"}])
except BaseException as e:
    raised = e
fh.FAULT["fn"] = None
r = rows()
print(f"[2] W2 append returned/raised {raised!r}; rows now = {r}")
if 666 in r:
    bad = True
    print("[2] DEFECT: rows of the DEAD, never-committed transaction (id 666) are now part of the table")

print("RESULT:", "DEFECT REPRODUCED" if bad else "no defect")
sys.stdout.flush()
os._exit(1 if bad else 0)
