"""
repro_4: C09 - garbage collection deletes a LIVE data file of retained snapshots when the
file was registered (via the public append_files / Table.append_data API) under a
non-canonical but valid spelling of its table-relative path ('data/./x.parquet',
'data//x.parquet', './data/x.parquet', 'data/sub/../x.parquet').
append_files validates the file (exists + schema) and every read resolves it fine;
GC compares listed paths against the reachable set by plain string after lstrip('/'),
so the live file looks like an orphan.
"""
import os, sys, tempfile, logging, time
sys.path.insert(0, "/tmp/seedwt/A4/src")
logging.disable(logging.CRITICAL)
from datashard import create_table, load_table, Schema

schema = Schema(schema_id=1, fields=[{"id": 1, "name": "id", "type": "long", "required": True}])
failed = False
for spelling in ["data/./x.parquet", "data//x.parquet", "./data/x.parquet", "data/sub/../x.parquet"]:
    d = tempfile.mkdtemp(prefix="a4_repro4_", dir="/tmp")
    t = create_table(d, schema=schema)
    t.append_records([{"id": 1}])
    os.makedirs(d + "/data/sub", exist_ok=True)
    # a pre-built data file, produced with the library's own writer (checksum, bounds, size all correct)
    df = t.file_manager.data_file_manager.write_data_file("data/x.parquet", [{"id": 2}], schema)
    df.file_path = spelling
    t.append_data([df])                      # accepted: exists + schema verified
    snap_after_append = t.current_snapshot().snapshot_id
    t.append_records([{"id": 3}])            # a later snapshot; the earlier one stays retained
    before = sorted(r["id"] for r in t.scan())
    time.sleep(0.01)
    stats = t.garbage_collect(grace_period_ms=0)
    try:
        after = sorted(r["id"] for r in load_table(d).scan())
    except Exception as e:
        after = f"RAISED {type(e).__name__}: {e}"
    exists = os.path.exists(d + "/data/x.parquet")
    print(f"{spelling!r}: before GC {before}; GC deleted {stats}; live file still on disk: {exists}; scan after GC: {after}")
    if not exists:
        failed = True
print("DEFECT REPRODUCED (GC removed a file referenced by the current AND an earlier retained snapshot)" if failed else "no defect")
sys.stdout.flush()
os._exit(1 if failed else 0)
