"""
repro_2: C02 (and C14 "transient error") - a transient stat() failure on the version
hint (or on the hinted metadata file) is swallowed by os.path.exists() inside
LocalStorageBackend.exists(); the reader silently drops into the "recover by
scanning" path, which picks the HIGHEST-numbered v*.metadata.json in metadata/ -
including one written by a commit that has not reached (and may never reach) its
commit point.  The read returns rows of a snapshot that was never committed
(dirty read); the next read moves backwards.

Variant A: in-flight committer whose hint flip then FAILS (commit reported failed).
Variant B: committer that crashed between metadata write and hint flip (orphan stays forever).
"""
import errno, os, sys, tempfile, threading, logging
sys.path.insert(0, "/tmp/seedwt/A4/src")
logging.disable(logging.CRITICAL)
from datashard import create_table, load_table, Schema
import datashard.metadata_manager as mm

real_stat = os.stat
fail_once = {"path_suffix": None}
def flaky_stat(p, *a, **k):
    s = fail_once["path_suffix"]
    if s and isinstance(p, str) and p.endswith(s):
        fail_once["path_suffix"] = None          # exactly one transient failure
        raise OSError(errno.EIO, "injected transient I/O error", p)
    return real_stat(p, *a, **k)
os.stat = flaky_stat   # os.path.exists -> os.stat -> OSError swallowed -> False

def ids(t): return sorted(r["id"] for r in t.scan())
schema = Schema(schema_id=1, fields=[{"id": 1, "name": "id", "type": "long", "required": True}])
failed = False
base = tempfile.mkdtemp(prefix="a4_repro2_", dir="/tmp")

# ---------------- Variant A: in-flight commit that ends up FAILING ----------------
a = base + "/A"
w = create_table(a, schema=schema)
w.append_records([{"id": 1}]); w.append_records([{"id": 2}])
reader = load_table(a)
print("A: committed state:", ids(reader))

metadata_written, reader_done = threading.Event(), threading.Event()
orig_flip = mm.MetadataManager._write_hint_at_commit_point
def paused_then_failing_flip(self, metadata_file, hint_etag):
    metadata_written.set()            # new vN+1 metadata file is on disk, hint NOT flipped
    reader_done.wait(30)
    raise OSError(errno.ENOSPC, "No space left on device")   # clean local failure of the hint write
mm.MetadataManager._write_hint_at_commit_point = paused_then_failing_flip
writer_result = {}
def writer():
    try:
        w.append_records([{"id": 99}])
        writer_result["r"] = "committed"
    except Exception as e:
        writer_result["r"] = f"FAILED: {type(e).__name__}: {e}"
th = threading.Thread(target=writer); th.start()
metadata_written.wait(30)
fail_once["path_suffix"] = "metadata.version-hint.text"     # one transient EIO on the hint probe
during = ids(reader)
reader_done.set(); th.join()
mm.MetadataManager._write_hint_at_commit_point = orig_flip
after = ids(reader)
print("A: writer outcome        :", writer_result["r"])
print("A: read during the window :", during, " <- with ONE transient stat() error on the hint")
print("A: next read (same handle):", after)
if 99 in during:
    print("A: DIRTY READ: rows of a commit that FAILED were returned; the handle then moved backwards")
    failed = True

# ---------------- Variant B: crashed committer leaves an orphan forever ----------------
b = base + "/B"
w = create_table(b, schema=schema)
w.append_records([{"id": 1}]); w.append_records([{"id": 2}])
class Crash(BaseException): pass
def crash(self, *a_, **k_): raise Crash()
mm.MetadataManager._write_hint_at_commit_point = crash
try: w.append_records([{"id": 77}])
except Crash: pass
mm.MetadataManager._write_hint_at_commit_point = orig_flip
reader = load_table(b)
print("B: hint:", open(b + "/metadata.version-hint.text").read(), "| metadata/:", sorted(f for f in os.listdir(b + "/metadata") if f.endswith(".json")))
print("B: normal read:", ids(reader))
hint = open(b + "/metadata.version-hint.text").read().strip()
for suffix in ("metadata.version-hint.text", hint):
    fail_once["path_suffix"] = suffix
    got = ids(reader)
    print(f"B: read with one transient stat() error on {suffix!r}:", got, "| row_count next:", reader.row_count())
    if 77 in got:
        failed = True
print("B: next read:", ids(reader))

print("DEFECT REPRODUCED" if failed else "no defect")
sys.stdout.flush()
os._exit(1 if failed else 0)
