"""
repro_3: C14 - manifests and manifest lists are accepted with NO integrity check.
The manifest list records manifest_length and added/existing file counts for every
manifest, but nothing on the read path compares them with what was actually read.
Consequences (all read APIs, no exception):
  (a) manifest LIST cut at the end of its Avro header  -> table reported EMPTY
  (b) manifest cut at the end of its Avro header        -> that manifest's files silently missing
  (c) large manifest cut at an inner Avro block boundary-> a prefix of its files (partial rows)
  (d) one flipped byte (Avro block record-count)        -> files silently missing
  (e) manifest content replaced by a sibling manifest's -> files silently missing
"""
import os, sys, shutil, tempfile, logging, json
sys.path.insert(0, "/tmp/seedwt/A4/src")
logging.disable(logging.CRITICAL)
from datashard import create_table, load_table, Schema

schema = Schema(schema_id=1, fields=[{"id": 1, "name": "id", "type": "long", "required": True}])
base = tempfile.mkdtemp(prefix="a4_repro3_", dir="/tmp")
src = base + "/t"
t = create_table(src, schema=schema)
t.append_records([{"id": 1}, {"id": 2}])
t.append_records([{"id": 3}])
with t.new_transaction() as tx:                      # one big manifest (several Avro blocks)
    for i in range(150):
        tx.append_data([{"id": 1000 + i}])
    tx.commit()
expected = sorted(r["id"] for r in t.scan())
print("healthy table:", len(expected), "rows")

hint = open(src + "/metadata.version-hint.text").read().strip()
md = json.load(open(f"{src}/metadata/{hint}"))
cur = next(s for s in md["snapshots"] if s["snapshot_id"] == md["current_snapshot_id"])
mlist_rel = cur["manifest_list"]
manifests = t.file_manager.read_manifest_list_file(mlist_rel)
print("manifest list entries (path, recorded length, recorded added count):")
for m in manifests:
    print("   ", m.manifest_path.rsplit("/", 1)[-1], m.manifest_length, m.added_data_files_count)

def block_boundaries(raw):
    """offsets just after each occurrence of the file's 16-byte sync marker"""
    sync = raw[-16:]
    out, i = [], raw.find(sync)
    while i != -1:
        out.append(i + 16); i = raw.find(sync, i + 1)
    return out   # out[0] = end of header, out[-1] = len(raw)

def read_all(path):
    res = {}
    try:
        tt = load_table(path)
    except Exception as e:
        return {"load_table": f"RAISED {type(e).__name__}"}
    for name, fn in {
        "scan": lambda: sorted(r["id"] for r in tt.scan()),
        "scan(parallel=2)": lambda: sorted(r["id"] for r in tt.scan(parallel=2)),
        "scan_batches": lambda: sorted(r["id"] for b in tt.scan_batches() for r in b),
        "iter_records": lambda: sorted(r["id"] for r in tt.iter_records()),
        "row_count": lambda: tt.row_count(),
    }.items():
        try:
            v = fn(); res[name] = v if isinstance(v, int) else len(v)
        except Exception as e:
            res[name] = f"RAISED {type(e).__name__}"
    return res

failed = False
def trial(label, rel, mutate):
    global failed
    work = base + "/w"
    if os.path.exists(work): shutil.rmtree(work)
    shutil.copytree(src, work)
    p = f"{work}/{rel.lstrip('/')}"
    raw = open(p, "rb").read()
    new = mutate(raw, work)
    open(p, "wb").write(new)
    res = read_all(work)
    wrong = {k: v for k, v in res.items() if isinstance(v, int) and v != len(expected)}
    print(f"{label}: {len(raw)} -> {len(new)} bytes; rows seen: {res}" + ("   <-- SILENTLY WRONG" if wrong else ""))
    if wrong: failed = True

small, big = manifests[0].manifest_path, manifests[-1].manifest_path
trial("(a) manifest LIST truncated to its Avro header", mlist_rel, lambda raw, w: raw[:block_boundaries(raw)[0]])
trial("(b) small manifest truncated to its Avro header", small, lambda raw, w: raw[:block_boundaries(raw)[0]])
bb = block_boundaries(open(f"{src}/{big}", "rb").read())
print("    big manifest Avro block boundaries:", bb)
trial("(c) big manifest truncated at 1st inner block boundary", big, lambda raw, w: raw[:block_boundaries(raw)[1]])
def flip_count(raw, w):
    off = block_boundaries(raw)[0]       # first byte after the header = block record count (zig-zag varint)
    b = bytearray(raw); b[off] ^= 0x01; return bytes(b)
trial("(d) ONE byte flipped (block record count) in small manifest", small, flip_count)
trial("(e) small manifest overwritten with sibling manifest #2's bytes", small,
      lambda raw, w: open(f"{w}/{manifests[1].manifest_path}", "rb").read())

print("DEFECT REPRODUCED" if failed else "no defect")
sys.stdout.flush()
os._exit(1 if failed else 0)
