"""
repro_1: C14 - the CURRENT metadata file is missing -> every read API silently
answers from an OLDER metadata version (subset of rows, or an "empty" table)
instead of raising.  A later commit then forks history from the stale version
and the lost snapshot's rows disappear for good.
"""
import os, sys, shutil, tempfile, logging
sys.path.insert(0, "/tmp/seedwt/A4/src")
logging.disable(logging.CRITICAL)
from datashard import create_table, load_table, Schema

def build(path, n_commits):
    schema = Schema(schema_id=1, fields=[{"id": 1, "name": "id", "type": "long", "required": True}])
    t = create_table(path, schema=schema)
    for i in range(1, n_commits + 1):
        t.append_records([{"id": i}])
    return t

def read_all(t):
    out = {}
    for name, fn in {
        "scan": lambda: sorted(r["id"] for r in t.scan()),
        "scan(parallel=2)": lambda: sorted(r["id"] for r in t.scan(parallel=2)),
        "scan_batches": lambda: sorted(r["id"] for b in t.scan_batches() for r in b),
        "iter_records": lambda: sorted(r["id"] for r in t.iter_records()),
        "row_count": lambda: t.row_count(),
    }.items():
        try:
            out[name] = fn()
        except Exception as e:
            out[name] = f"RAISED {type(e).__name__}"
    return out

failed = False
base = tempfile.mkdtemp(prefix="a4_repro1_", dir="/tmp")

# --- case A: 3 commits, current metadata file (v3) deleted -> reads return v2's rows
a = base + "/A"
t = build(a, 3)
hint = open(a + "/metadata.version-hint.text").read().strip()
print("A: hint names", hint, "; healthy scan =", sorted(r["id"] for r in t.scan()))
os.remove(f"{a}/metadata/{hint}")
for handle_name, handle in (("existing handle", t), ("fresh load_table", load_table(a))):
    res = read_all(handle)
    print(f"A: after deleting {hint} ({handle_name}):", res)
    for k, v in res.items():
        if not (isinstance(v, str) and v.startswith("RAISED")):
            failed = True   # should have raised: the current snapshot's metadata is gone

# --- case B: 1 commit, current metadata (v1) deleted -> table reported EMPTY
b = base + "/B"
t = build(b, 1)
hint = open(b + "/metadata.version-hint.text").read().strip()
os.remove(f"{b}/metadata/{hint}")
res = read_all(load_table(b))
print("B: single-commit table, current metadata deleted:", res)
if res["scan"] == [] or res["row_count"] == 0:
    print("B: BROKEN TABLE REPORTED AS EMPTY")
    failed = True

# --- consequence: a later append forks from the stale version; the lost rows never come back
t = load_table(a)
t.append_records([{"id": 100}])
print("A: after one more append on the damaged table:", sorted(r["id"] for r in load_table(a).scan()),
      "(row 3 was committed and acknowledged, now permanently absent)")

print("DEFECT REPRODUCED" if failed else "no defect")
sys.stdout.flush()
os._exit(1 if failed else 0)
