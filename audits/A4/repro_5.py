"""
repro_5: C14 (third sentence) - with checksum verification ON (the default) a changed
data-file byte is NOT detected for files that were registered through the public
file-level API (Transaction.append_files / Table.append_data) without a checksum:
the library never computes one at append time (although it opens the file to
check its schema), and the read path silently skips verification when
DataFile.checksum is empty.  Altered rows are returned, no CorruptDataError.
"""
import os, struct, sys, tempfile, logging
sys.path.insert(0, "/tmp/seedwt/A4/src")
logging.disable(logging.CRITICAL)
from datashard import create_table, load_table, Schema, DataFile, FileFormat
import pyarrow as pa, pyarrow.parquet as pq

d = tempfile.mkdtemp(prefix="a4_repro5_", dir="/tmp")
schema = Schema(schema_id=1, fields=[{"id": 1, "name": "v", "type": "long", "required": False}])
t = create_table(d, schema=schema)
p = d + "/data/ext.parquet"
pq.write_table(pa.table({"v": pa.array(range(1000, 1010), pa.int64())}), p, compression="none", use_dictionary=False)
t.append_data([DataFile(file_path="/data/ext.parquet", file_format=FileFormat.PARQUET, partition_values={},
                        record_count=10, file_size_in_bytes=os.path.getsize(p))])
good = [r["v"] for r in t.scan()]
print("stored checksum in manifest:", t._get_all_data_files()[0].checksum)
print("before damage:", good)
raw = bytearray(open(p, "rb").read())
raw[raw.find(struct.pack("<q", 1003))] ^= 0x40          # flip one bit of one value
open(p, "wb").write(bytes(raw))
failed = False
for name, fn in {
    "scan()": lambda tt: [r["v"] for r in tt.scan()],
    "scan(verify_checksums=True)": lambda tt: [r["v"] for r in tt.scan(verify_checksums=True)],
    "scan_batches(verify_checksums=True)": lambda tt: [r["v"] for b in tt.scan_batches(verify_checksums=True) for r in b],
    "iter_records()": lambda tt: [r["v"] for r in tt.iter_records()],
}.items():
    try:
        got = fn(load_table(d))
        print(f"{name}: {got}" + ("   <-- ALTERED ROWS, NO ERROR" if got != good else ""))
        failed |= got != good
    except Exception as e:
        print(f"{name}: RAISED {type(e).__name__}")
print("DEFECT REPRODUCED" if failed else "no defect")
sys.stdout.flush()
os._exit(1 if failed else 0)
