"""
repro_6: read path / filter option (C02 "returns exactly the rows of one snapshot", for
filtered reads): file-level pruning by column bounds disagrees with the row-level
predicate, so whether a row is returned depends on WHICH FILE it happens to sit in.
  (a) '!=' : a file whose non-NaN values all equal the literal is pruned
      (file_min == file_max == value) although it also holds NaN rows, and
      NaN != value is TRUE for the row-level engine.  (pc.min/max ignore NaN.)
  (b) 'in' on a 32-bit float column: the row-level engine casts the value set to
      float32 (0.1 matches the stored 0.1f) while pruning compares the float64
      literal with float32-derived bounds (0.1 < 0.10000000149) and drops the file.
Every read API (scan / parallel / scan_batches / iter_records, verify on or off) is affected.
"""
import os, sys, tempfile, logging, math
sys.path.insert(0, "/tmp/seedwt/A4/src")
logging.disable(logging.CRITICAL)
from datashard import create_table, Schema
import datashard.filters as F

def mk(filesets, typ):
    d = tempfile.mkdtemp(prefix="a4_repro6_", dir="/tmp")
    t = create_table(d, schema=Schema(schema_id=1, fields=[
        {"id": 1, "name": "k", "type": "long", "required": True},
        {"id": 2, "name": "x", "type": typ, "required": False}]))
    k = 0
    for values in filesets:                      # one data file per inner list
        rows = []
        for v in values:
            rows.append({"k": k, "x": v}); k += 1
        t.append_records(rows)
    return t

def with_and_without_pruning(t, filt):
    pruned = {
        "scan": sorted(r["k"] for r in t.scan(filter=filt)),
        "scan(parallel=2, verify=False)": sorted(r["k"] for r in t.scan(filter=filt, parallel=2, verify_checksums=False)),
        "scan_batches": sorted(r["k"] for b in t.scan_batches(filter=filt) for r in b),
        "iter_records": sorted(r["k"] for r in t.iter_records(filter=filt)),
    }
    orig = F.prune_files_by_bounds
    F.prune_files_by_bounds = lambda files, e, s: files          # same engine, pruning off = ground truth
    try:
        truth = sorted(r["k"] for r in t.scan(filter=filt))
    finally:
        F.prune_files_by_bounds = orig
    return pruned, truth

failed = False
nan = float("nan")
# (a) rows k=1 and k=3 are both NaN; k=1 shares a file with 5.0 only, k=3 shares a file with 7.0
t = mk([[5.0, nan], [7.0, nan]], "double")
pruned, truth = with_and_without_pruning(t, {"x": ("!=", 5.0)})
print("(a) x != 5.0   rows by k: file0=[5.0, NaN] file1=[7.0, NaN]")
print("    row-level answer (pruning off):", truth)
for k, v in pruned.items():
    print(f"    {k}: {v}" + ("   <-- NaN row k=1 dropped, NaN row k=3 kept" if v != truth else ""))
    failed |= v != truth
# (b) rows k=0 and k=1 both hold float32 0.1
t = mk([[0.1], [0.1, 2.0]], "float")
pruned, truth = with_and_without_pruning(t, {"x": ("in", [0.1, 2.0])})
print("(b) x in [0.1, 2.0] on a 'float' (32-bit) column   file0=[0.1] file1=[0.1, 2.0]")
print("    row-level answer (pruning off):", truth)
for k, v in pruned.items():
    print(f"    {k}: {v}" + ("   <-- row k=0 (0.1) dropped, identical value k=1 kept" if v != truth else ""))
    failed |= v != truth
print("DEFECT REPRODUCED" if failed else "no defect")
sys.stdout.flush()
os._exit(1 if failed else 0)
