"""1e5d23a: errors that are transient in practice are now classified permanent, so ONE
occurrence fails the operation (before: retried with back-off):
 - 400 BadDigest / IncompleteBody / XAmzContentSHA256Mismatch (request body damaged or cut in transit;
   botocore's own S3 retry policy lists BadDigest as retryable), 400 KMS.ThrottlingException;
 - SDK: FlexibleChecksumError (response body checksum mismatch - sibling of ChecksumError, which IS
   exempted), CredentialRetrievalError / MetadataRetrievalError (metadata-endpoint hiccup during a
   credential refresh)."""
import sys
sys.path.insert(0, "/tmp/seedout/B10")
import s3fake
from s3fake import cerr
from botocore.exceptions import (FlexibleChecksumError, CredentialRetrievalError, MetadataRetrievalError)

fake = s3fake.install()
be = s3fake.backend(fake)
fake._put("tbl/metadata/v1.metadata.json", b"{}")
bad = []

def once(op_name, exc):
    state = {"done": False}
    def pre(op, kw):
        if op == op_name and not state["done"]:
            state["done"] = True
            raise exc
    return pre

cases = [
    ("write_file  <- 400 BadDigest once", "put_object", cerr("BadDigest", 400, "PutObject"), lambda: be.write_file("data/a", b"abc")),
    ("write_file  <- 400 IncompleteBody once", "put_object", cerr("IncompleteBody", 400, "PutObject"), lambda: be.write_file("data/a", b"abc")),
    ("write_file  <- 400 KMS.ThrottlingException once", "put_object", cerr("KMS.ThrottlingException", 400, "PutObject"), lambda: be.write_file("data/a", b"abc")),
    ("read_file   <- FlexibleChecksumError once", "get_object", FlexibleChecksumError(error_msg="crc32 mismatch"), lambda: be.read_file("metadata/v1.metadata.json")),
    ("exists      <- CredentialRetrievalError once", "head_object", CredentialRetrievalError(provider="container-role", error_msg="timed out"), lambda: be.exists("metadata/v1.metadata.json")),
    ("list_files  <- MetadataRetrievalError once", "list_objects_v2", MetadataRetrievalError(error_msg="IMDS 503"), lambda: be.list_files("metadata")),
]
for label, op, exc, fn in cases:
    fake.pre_hook = once(op, exc)
    fake.calls.clear()
    try:
        fn()
        print(f"{label:50s} recovered after {len([c for c in fake.calls if c[0]==op])} attempts")
    except Exception as e:
        print(f"{label:50s} FAILED after {len([c for c in fake.calls if c[0]==op])} attempt: {type(e).__name__}")
        bad.append(label)
print("PROBLEM" if bad else "ok")
sys.exit(1 if bad else 0)
