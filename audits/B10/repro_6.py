"""c069746: (info / nit) files remembered in _unvalidated_files are never dropped once validated:
every OCC retry of commit() re-reads the parquet footer of every such file; a file written by
append_data() itself on a then schema-less table is in the list too (checked twice: footer read +
_written_schemas comparison)."""
import os, shutil, sys, tempfile
os.environ["DATASHARD_STORAGE_TYPE"] = "local"
import pyarrow as pa, pyarrow.parquet as pq
from datashard import create_table
from datashard.transaction import Table, Transaction
from datashard.data_structures import Schema, DataFile, FileFormat
from datashard.metadata_manager import ConcurrentModificationException

d = tempfile.mkdtemp(dir="/dev/shm")
try:
    root = os.path.join(d, "t")
    schema = Schema(1, [{"id": 1, "name": "k", "type": "long", "required": False}])
    os.makedirs(os.path.join(root, "data"))
    files = []
    for i in range(20):
        p = os.path.join(root, "data", f"pre{i}.parquet")
        pq.write_table(pa.table({"k": pa.array([i], pa.int64())}), p)
        files.append(DataFile(file_path=f"data/pre{i}.parquet", file_format=FileFormat.PARQUET, partition_values={},
                              record_count=1, file_size_in_bytes=os.path.getsize(p)))
    early = Table(root, create_if_not_exists=False)   # table does not exist yet
    tx = early.new_transaction().begin()
    tx.append_files(files)                               # no schema to check against
    create_table(root, schema)                           # the racing creator (same schema)
    tx.append_data([{"k": 99}], schema=schema)         # validated against the table already
    print("unvalidated files remembered:", len(tx._unvalidated_files))

    calls = {"n": 0}
    orig = Transaction._validate_file_schema
    def counting(self, df, s):
        calls["n"] += 1
        return orig(self, df, s)
    Transaction._validate_file_schema = counting
    conflicts = {"left": 5}
    orig_commit = tx._commit_file_ops
    def flaky(*a, **k):
        if conflicts["left"]:
            conflicts["left"] -= 1
            raise ConcurrentModificationException("lost the race")
        return orig_commit(*a, **k)
    tx._commit_file_ops = flaky
    tx.commit()
    print("footer validations during one commit() with 5 OCC conflicts:", calls["n"], "(20 files)")
    print("rows:", len(early.scan()))
    bad = calls["n"] > 20
finally:
    shutil.rmtree(d, ignore_errors=True)
print("NIT shown" if bad else "ok")
sys.exit(1 if bad else 0)
