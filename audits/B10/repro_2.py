"""f9a7bc8: the resume GET is not pinned to the object version the stream started on.
An object replaced between the first GET and the resume yields bytes of BOTH versions,
silently (no IfMatch=<ETag of first response>, Content-Range not checked)."""
import sys
sys.path.insert(0, "/tmp/seedout/B10")
import s3fake
from s3fake import FaultyBody
from botocore.exceptions import ReadTimeoutError
from datashard.integrity import IntegrityChecker
import hashlib

fake = s3fake.install()
be = s3fake.backend(fake)
v1 = b"A" * 30000
v2 = b"B" * 30000
fake._put("tbl/data/pre.parquet", v1)

state = {"n": 0}
def hook(f, kw, d):
    state["n"] += 1
    if state["n"] == 1:
        return FaultyBody(d, fail_after=16384, exc=ReadTimeoutError(endpoint_url="http://x"))
fake.get_hook = hook
def pre(op, kw):
    # the writer of the pre-built file re-uploads it while we stream (2nd GET = the resume)
    if op == "get_object" and kw.get("Range"):
        fake._put("tbl/data/pre.parquet", v2)
fake.pre_hook = pre

with be.open_file("data/pre.parquet") as s:
    checksum = IntegrityChecker.compute_checksum_from_stream(s)
resume = [c for c in fake.calls if c[0] == "get_object" and c[1].get("Range")]
print("resume request:", resume)
print("checksum is v1:", checksum == hashlib.sha256(v1).hexdigest(), " is v2:", checksum == hashlib.sha256(v2).hexdigest(),
      " is 16384*A+13616*B:", checksum == hashlib.sha256(v1[:16384] + v2[16384:]).hexdigest())
bad = checksum not in (hashlib.sha256(v1).hexdigest(), hashlib.sha256(v2).hexdigest())
print("PROBLEM: read returned a splice of two object versions without an error" if bad else "ok")
sys.exit(1 if bad else 0)
