"""7c8d896: a FRESH marker of the previous release's format (<basename>.<8 hex>.inflight - always
written WITH a payload) whose payload is empty (damaged) used to abort the collection (fail closed).
Now it is taken for a pre-payload legacy marker and "protects" data/<basename>.<8 hex> - a file that
cannot exist - so the live transaction's real file is deleted.
Also shown (not a regression, the fix just does not reach it): an intact marker written by a
not-yet-upgraded writer for a '.tmp.*' basename is still skipped as a temp file."""
import json, os, shutil, sys, tempfile, time
os.environ["DATASHARD_STORAGE_TYPE"] = "local"
from datashard import create_table
from datashard.data_structures import Schema
from datashard.garbage_collector import GarbageCollectionAborted

d = tempfile.mkdtemp(dir="/dev/shm")
bad = []
try:
    schema = Schema(1, [{"id": 1, "name": "k", "type": "long", "required": False}])
    root = os.path.join(d, "t")
    t = create_table(root, schema)
    t.append_records([{"k": 1}])
    old = time.time() - 7200

    def plant(rel, marker_name, payload):
        p = os.path.join(root, rel)
        os.makedirs(os.path.dirname(p), exist_ok=True)
        with open(p, "wb") as f:
            f.write(b"PAR1 pre-built file of a running transaction")
        os.utime(p, (old, old))
        m = os.path.join(root, "metadata/inflight", marker_name)
        os.makedirs(os.path.dirname(m), exist_ok=True)
        with open(m, "wb") as f:
            f.write(payload)
        return p, m

    # 1. damaged (empty) marker of the intermediate format, fresh
    p1, m1 = plant("data/p=1/part-0.parquet", "part-0.parquet.1a2b3c4d.inflight", b"")
    try:
        stats = t.garbage_collect(grace_period_ms=3600_000)
        print("1. collection ran:", stats, "- live transaction's file still there:", os.path.exists(p1))
        if not os.path.exists(p1):
            bad.append("empty intermediate-format marker: file deleted instead of GC aborting")
    except GarbageCollectionAborted as e:
        print("1. aborted (fail closed):", str(e)[:90])
    os.remove(m1)

    # 2. intact marker of an old writer for a '.tmp.' basename
    p2, m2 = plant("data/.tmp.staged.parquet", ".tmp.staged.parquet.1a2b3c4d.inflight",
                   json.dumps({"file_path": "data/.tmp.staged.parquet"}).encode())
    stats = t.garbage_collect(grace_period_ms=3600_000)
    print("2. old-format marker with '.tmp.' name and intact payload: file still there:", os.path.exists(p2), "(info)")
finally:
    shutil.rmtree(d, ignore_errors=True)
print("PROBLEM" if bad else "ok", bad)
sys.exit(1 if bad else 0)
