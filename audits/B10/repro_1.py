"""3c1fb9f: 'any iterable value set' - a one-shot iterable (generator / iterator)
is consumed by the first consumer (the row-level expression builder, the float32
rounding, or the first file's list(expr.value)); the others see an empty set:
files are pruned / rows dropped silently. list and frozenset give the right rows."""
import os, shutil, sys, tempfile
os.environ["DATASHARD_STORAGE_TYPE"] = "local"
from datashard import create_table
from datashard.data_structures import Schema
from datashard.filters import FilterExpression, FilterOp, prune_files_by_bounds

d = tempfile.mkdtemp(dir="/dev/shm")
bad = []
try:
    schema = Schema(1, [{"id": 1, "name": "k", "type": "long", "required": False},
                        {"id": 2, "name": "f", "type": "float", "required": False}])
    t = create_table(os.path.join(d, "t"), schema)
    t.append_records([{"k": 1, "f": 0.1}])
    t.append_records([{"k": 2, "f": 0.2}])
    t.append_records([{"k": 3, "f": 0.3}])

    def rows(flt):
        return sorted(r["k"] for r in t.scan(filter=flt))

    def rows_b(flt):
        out = []
        for batch in t.scan_batches(filter=flt):
            out.extend(r["k"] for r in batch)
        return sorted(out)

    for label, fn in (("scan", rows), ("scan_batches", rows_b)):
        for col, vals in (("k", [1, 3]), ("f", [0.1, 0.3])):
            want = fn({col: ("in", list(vals))})
            got_fs = fn({col: ("in", frozenset(vals))})
            got_gen = fn({col: ("in", (v for v in vals))})
            got_it = fn({col: ("in", iter(vals))})
            print(f"{label:12s} {col}: list={want} frozenset={got_fs} generator={got_gen} iter={got_it}")
            if got_gen != want or got_it != want or got_fs != want:
                bad.append((label, col))

    # prune_files_by_bounds alone: generator consumed by the first file
    files = t._get_all_data_files()
    kept = prune_files_by_bounds(files, [FilterExpression("k", FilterOp.IN, (v for v in [1, 2, 3]))], schema)
    print("prune alone with generator keeps", len(kept), "of", len(files), "files (all 3 match)")
    if len(kept) != 3:
        bad.append("prune")
finally:
    shutil.rmtree(d, ignore_errors=True)
print("PROBLEM" if bad else "ok", bad)
sys.exit(1 if bad else 0)
