"""f9a7bc8: `except Exception` in S3FileStream.read() treats EVERY failure of body.read() as a
broken connection: (a) read() on a stream that was close()d re-opens the object and returns data
(used to raise ValueError), leaving a body nobody closes; (b) the body that failed - and bodies
whose read failed inside the retry - are never closed (their connections are not released)."""
import sys
sys.path.insert(0, "/tmp/seedout/B10")
import s3fake
from s3fake import FaultyBody
from botocore.exceptions import ReadTimeoutError

fake = s3fake.install()
be = s3fake.backend(fake)
fake._put("tbl/x", b"0123456789" * 1000)
bad = []

s = be.open_file("x")
s.read(10)
s.close()
try:
    got = s.read(10)
    print("(a) read() after close() returned", got, "- GETs:", [c[1].get("Range") for c in fake.calls if c[0] == "get_object"])
    bad.append("read after close re-opens")
except ValueError as e:
    print("(a) ok, ValueError:", e)
print("    bodies closed:", [b.closed for b in fake.bodies])

fake.calls.clear(); fake.bodies.clear()
n = {"n": 0}
def hook(f, kw, d):
    n["n"] += 1
    if n["n"] <= 3:  # first body and the first two resume bodies fail
        return FaultyBody(d, fail_after=0 if n["n"] > 1 else 4000, exc=ReadTimeoutError(endpoint_url="http://x"))
fake.get_hook = hook
with be.open_file("x") as s:
    out = b""
    while True:
        c = s.read(4096)
        if not c:
            break
        out += c
print("(b) content ok:", out == b"0123456789" * 1000, " bodies closed after `with`:", [b.closed for b in fake.bodies])
if not all(b.closed for b in fake.bodies):
    bad.append("bodies left open")
print("PROBLEM" if bad else "ok", bad)
sys.exit(1 if bad else 0)
