"""Small in-memory fake of the boto3 S3 client, patched into boto3.client /
boto3.session.Session().client. Supports get_object (Range, IfMatch), put_object
(IfMatch / IfNoneMatch), head_object, delete_object, list_objects_v2 + paginator."""
import datetime
import hashlib
import io
import re

import boto3
from botocore.exceptions import ClientError


def cerr(code, status, op="Op", msg="x"):
    return ClientError(
        {"Error": {"Code": code, "Message": msg}, "ResponseMetadata": {"HTTPStatusCode": status}}, op
    )


class FaultyBody:
    """StreamingBody stand-in: serves `data`; raises `exc` once `fail_after` bytes were returned."""

    def __init__(self, data, fail_after=None, exc=None, short=None, log=None):
        self._bio = io.BytesIO(data)
        self._fail_after = fail_after
        self._exc = exc
        self._short = short  # max chunk length
        self.closed = False
        self.served = 0
        self._log = log

    def read(self, amt=None):
        if self.closed:
            raise ValueError("I/O operation on closed file")
        if self._fail_after is not None and self.served >= self._fail_after:
            raise self._exc
        if amt is None or amt < 0:
            want = None
        else:
            want = amt
        if self._fail_after is not None:
            room = self._fail_after - self.served
            if want is None:
                # a read-everything call that hits the fault loses what it had read
                self._bio.read(room)
                self.served += room
                raise self._exc
            want = min(want, room)
        if self._short is not None and want is not None:
            want = min(want, self._short)
        chunk = self._bio.read() if want is None else self._bio.read(want)
        self.served += len(chunk)
        return chunk

    def close(self):
        self.closed = True


class FakeS3:
    def __init__(self):
        self.objects = {}  # key -> (bytes, etag, last_modified)
        self.calls = []
        self.bodies = []
        self.get_hook = None  # (self, kwargs, data) -> body or None
        self.pre_hook = None  # (op, kwargs) -> may raise
        self.send_content_length = True

    # helpers
    def _put(self, key, data, when=None):
        etag = '"' + hashlib.md5(data).hexdigest() + '"'
        self.objects[key] = (bytes(data), etag, when or datetime.datetime.now(datetime.timezone.utc))
        return etag

    def _call(self, op, kw):
        self.calls.append((op, dict((k, v) for k, v in kw.items() if k != "Body")))
        if self.pre_hook:
            self.pre_hook(op, kw)

    def put_object(self, **kw):
        self._call("put_object", kw)
        key = kw["Key"]
        body = kw.get("Body", b"")
        if hasattr(body, "read"):
            body = body.read()
        if kw.get("IfNoneMatch") == "*" and key in self.objects:
            raise cerr("PreconditionFailed", 412, "PutObject")
        if "IfMatch" in kw:
            if key not in self.objects:
                raise cerr("NoSuchKey", 404, "PutObject")
            if self.objects[key][1] != kw["IfMatch"]:
                raise cerr("PreconditionFailed", 412, "PutObject")
        return {"ETag": self._put(key, body)}

    def get_object(self, **kw):
        self._call("get_object", kw)
        key = kw["Key"]
        if key not in self.objects:
            raise cerr("NoSuchKey", 404, "GetObject")
        data, etag, lm = self.objects[key]
        if "IfMatch" in kw and kw["IfMatch"] != etag:
            raise cerr("PreconditionFailed", 412, "GetObject")
        total = len(data)
        resp = {"ETag": etag, "LastModified": lm}
        rng = kw.get("Range")
        if rng:
            m = re.match(r"bytes=(\d+)-(\d*)$", rng)
            first = int(m.group(1))
            last = int(m.group(2)) if m.group(2) else total - 1
            if first >= total:
                raise cerr("InvalidRange", 416, "GetObject")
            last = min(last, total - 1)
            data = data[first : last + 1]
            resp["ContentRange"] = f"bytes {first}-{last}/{total}"
        if self.send_content_length:
            resp["ContentLength"] = len(data)
        body = None
        if self.get_hook:
            body = self.get_hook(self, kw, data)
        if body is None:
            body = FaultyBody(data)
        self.bodies.append(body)
        resp["Body"] = body
        return resp

    def head_object(self, **kw):
        self._call("head_object", kw)
        key = kw["Key"]
        if key not in self.objects:
            raise cerr("404", 404, "HeadObject")
        data, etag, lm = self.objects[key]
        return {"ContentLength": len(data), "ETag": etag, "LastModified": lm}

    def delete_object(self, **kw):
        self._call("delete_object", kw)
        self.objects.pop(kw["Key"], None)
        return {}

    def list_objects_v2(self, **kw):
        self._call("list_objects_v2", kw)
        prefix = kw.get("Prefix", "")
        keys = sorted(k for k in self.objects if k.startswith(prefix))
        if "MaxKeys" in kw:
            keys = keys[: kw["MaxKeys"]]
        out = {"KeyCount": len(keys)}
        if keys:
            out["Contents"] = [
                {"Key": k, "Size": len(self.objects[k][0]), "LastModified": self.objects[k][2], "ETag": self.objects[k][1]}
                for k in keys
            ]
        return out

    def get_paginator(self, name):
        fake = self

        class P:
            def paginate(self, **kw):
                yield fake.list_objects_v2(**kw)

        return P()


def install(fake=None):
    fake = fake or FakeS3()

    class _Session:
        def client(self, *a, **k):
            return fake

    boto3.client = lambda *a, **k: fake
    boto3.session.Session = lambda *a, **k: _Session()
    import datashard.s3_consistency as sc
    import time as _t

    # no real sleeping in retries
    sc.time = type("T", (), {"sleep": staticmethod(lambda s: None), "time": staticmethod(_t.time)})
    return fake


def backend(fake, prefix="tbl"):
    from datashard.storage_backend import S3StorageBackend

    return S3StorageBackend(bucket="b", prefix=prefix, access_key="a", secret_key="s")
