"""
repro_4 (C07): a reachable manifest (or manifest list) that was truncated at an
Avro block boundary - e.g. down to its header - or whose content was replaced by
JSON without the expected key is read as "zero entries" instead of "corrupt".
The collector therefore computes an incomplete reachable set WITHOUT noticing,
does not raise, and deletes the data files (and manifests) the damaged file was
protecting.  Recoverable metadata corruption becomes permanent data loss.

The information to detect it is at hand and ignored: the manifest list records
manifest_length and added/existing file counts for every manifest.

Exit 1 when the defect manifests.
"""
import glob
import os
import shutil
import sys
import tempfile
import time

sys.path.insert(0, "/tmp/seedwt/A2/src")
import logging
logging.disable(logging.CRITICAL)

from datashard import Schema, create_table  # noqa: E402
from datashard.transaction import Table  # noqa: E402

SCHEMA = Schema(schema_id=1, fields=[{"id": 1, "name": "id", "type": "int", "required": True}])
root = tempfile.mkdtemp(prefix="repro4_", dir="/tmp/seedout/A2/scratch" if os.path.isdir("/tmp/seedout/A2/scratch") else "/tmp")
gold = os.path.join(root, "gold")
t = create_table(gold, SCHEMA)
for i in range(3):
    t.append_records([{"id": i}], SCHEMA)          # 3 retained snapshots, 3 manifests, 3 lists

md = t.metadata_manager.refresh()
need = set()
cur_list = None
for s in md.snapshots:
    ml = s.manifest_list.lstrip("/")
    need.add(ml)
    if s.snapshot_id == md.current_snapshot_id:
        cur_list = ml
    for m in t.file_manager.read_manifest_list_file(ml):
        need.add(m.manifest_path.lstrip("/"))
        for df in t.file_manager.read_manifest_file(m.manifest_path.lstrip("/")):
            need.add(df.file_path.lstrip("/"))
first_manifest = sorted(p for p in need if os.path.basename(p).startswith("manifest_") and not os.path.basename(p).startswith("manifest_list_"))[0]
recorded = {m.manifest_path: (m.manifest_length, m.added_data_files_count) for m in t.file_manager.read_manifest_list_file(cur_list)}


def avro_header_len(b):
    sync = b[-16:]                  # every block (and the header) ends with the 16-byte sync marker
    return b.index(sync) + 16


CASES = {
    "manifest truncated to its Avro header": (first_manifest, lambda b: b[:avro_header_len(b)]),
    "manifest replaced by JSON '{}'": (first_manifest, lambda b: b"{}"),
    "current manifest LIST truncated to its Avro header": (cur_list, lambda b: b[:avro_header_len(b)]),
}
old = time.time() - 7200
defect = False
for name, (target, corrupt) in CASES.items():
    tp = os.path.join(root, "work")
    shutil.rmtree(tp, ignore_errors=True)
    shutil.copytree(gold, tp)
    p = os.path.join(tp, target)
    orig = open(p, "rb").read()
    open(p, "wb").write(corrupt(orig))
    for r, _d, fs in os.walk(tp):
        for f in fs:
            os.utime(os.path.join(r, f), (old, old))
    print(f"--- {name}: {target} ({len(orig)} -> {os.path.getsize(p)} bytes; "
          f"manifest list records {recorded.get(target, ('n/a', 'n/a'))} (length, added files))")
    try:
        stats = Table(tp, create_if_not_exists=False).garbage_collect()     # default grace
        outcome = f"returned {stats}"
    except Exception as e:
        outcome = f"raised {type(e).__name__}"
    lost = sorted(x for x in need if x != target and not os.path.exists(os.path.join(tp, x)))
    print(f"    GC {outcome}")
    print(f"    files referenced by retained snapshots (per the intact metadata) now deleted: {lost}")
    # restoring the damaged file from backup no longer helps:
    open(p, "wb").write(orig)
    try:
        rows = sorted(r["id"] for r in Table(tp, create_if_not_exists=False).scan())
        print(f"    after restoring the damaged file from backup, scan -> {rows}")
    except Exception as e:
        print(f"    after restoring the damaged file from backup, scan -> {type(e).__name__}: {str(e)[:90]}")
    if lost:
        defect = True

print()
if defect:
    print("DEFECT (C07): corrupt reachable manifest/manifest list read as empty; GC deleted live files instead of aborting")
sys.stdout.flush()
os._exit(1 if defect else 0)
