"""
repro_1: files handed to a transaction with append_files() get NO in-flight
protection, so a garbage collection deletes them

  (a) C05 - while the transaction is merely open (file "registered by a live
      transaction" is deleted; the later commit fails, the user's file is gone)
  (b) C06 - while the transaction is committing: the collector runs between the
      commit's own existence check (validate_data_files) and the version-hint
      flip.  The commit SUCCEEDS and the new current snapshot references a data
      file the collector has just deleted -> the table is unreadable.

The data file is older than the grace period (default 1h) when the transaction
commits, which C06 explicitly quantifies over; the grace period (1h) vastly
exceeds the duration of the collection run.

Exit code 1 when the defect manifests, 0 otherwise.
"""
import os
import sys
import tempfile
import threading
import time

sys.path.insert(0, "/tmp/seedwt/A2/src")
import logging
logging.disable(logging.CRITICAL)

from datashard import DataFile, FileFormat, Schema, create_table  # noqa: E402
from datashard.transaction import Table  # noqa: E402

SCHEMA = Schema(schema_id=1, fields=[{"id": 1, "name": "id", "type": "int", "required": True}])
bad = []


def prebuilt(table, tp, name, value, age_s=7200):
    """Write a parquet file into data/ the way a bulk loader would, 2h ago."""
    dfm = table.file_manager.data_file_manager
    df = dfm.write_data_file(f"data/{name}", [{"id": value}], SCHEMA)
    old = time.time() - age_s
    os.utime(os.path.join(tp, "data", name), (old, old))
    return DataFile(
        file_path=f"/data/{name}", file_format=FileFormat.PARQUET, partition_values={},
        record_count=1, file_size_in_bytes=df.file_size_in_bytes, checksum=df.checksum,
    )


# ---------------------------------------------------------------- (a) C05
root = tempfile.mkdtemp(prefix="repro1_", dir="/tmp/seedout/A2/scratch" if os.path.isdir("/tmp/seedout/A2/scratch") else "/tmp")
tp = os.path.join(root, "tbl_a")
t = create_table(tp, SCHEMA)
t.append_records([{"id": 1}], SCHEMA)
df = prebuilt(t, tp, "bulk_a.parquet", 2)
tx = t.new_transaction().begin()
tx.append_files([df])                       # file is now registered with a live transaction
inflight_dir = os.path.join(tp, "metadata", "inflight")
markers = os.listdir(inflight_dir) if os.path.isdir(inflight_dir) else []
print(f"(a) markers written by append_files: {markers}")
stats = Table(tp).garbage_collect()         # another process' collector, default grace 1h
gone = not os.path.exists(os.path.join(tp, "data", "bulk_a.parquet"))
print(f"(a) gc stats={stats}; file registered by the open transaction deleted: {gone}")
try:
    tx.commit()
    print("(a) commit ok")
except Exception as e:
    print(f"(a) commit -> {type(e).__name__}: {e}")
if gone:
    bad.append("C05: GC deleted a file registered (append_files) by a live transaction")

# ---------------------------------------------------------------- (b) C06
tp = os.path.join(root, "tbl_b")
t = create_table(tp, SCHEMA)
t.append_records([{"id": 1}], SCHEMA)
df = prebuilt(t, tp, "bulk_b.parquet", 2)

at_commit = threading.Event()     # committer: validated files, manifests written, about to commit metadata
gc_done = threading.Event()

orig_commit = t.metadata_manager.commit


def paused_commit(base, new):
    # storage-operation granularity hand-off: the committer is between
    # validate_data_files()/manifest writes and the version-hint flip
    at_commit.set()
    assert gc_done.wait(30)
    return orig_commit(base, new)


t.metadata_manager.commit = paused_commit
result = {}


def committer():
    try:
        with t.new_transaction() as tx:
            tx.append_files([df])
            result["commit"] = tx.commit()
    except Exception as e:  # pragma: no cover
        result["commit"] = e


def collector():
    assert at_commit.wait(30)
    t0 = time.time()
    try:
        result["gc"] = Table(tp).garbage_collect()      # default grace period: 1 hour
    except Exception as e:
        result["gc"] = e
    result["gc_secs"] = time.time() - t0
    gc_done.set()


th1 = threading.Thread(target=committer)
th2 = threading.Thread(target=collector)
th1.start(); th2.start(); th1.join(60); th2.join(60)
print(f"(b) commit -> {result.get('commit')!r}; gc -> {result.get('gc')!r} in {result.get('gc_secs', -1):.3f}s (grace 3600s)")

fresh = Table(tp)
snap = fresh.current_snapshot()
files = [f.file_path for f in fresh._get_all_data_files()]
print(f"(b) current snapshot {snap.snapshot_id} references {files}")
missing = [f for f in files if not os.path.exists(os.path.join(tp, f.lstrip('/')))]
print(f"(b) referenced files missing on disk: {missing}")
try:
    rows = fresh.scan()
    print(f"(b) scan ok: {rows}")
except Exception as e:
    print(f"(b) scan of the committed table -> {type(e).__name__}: {e}")
if result.get("commit") is True and missing:
    bad.append("C06: GC deleted a data file referenced by a snapshot committed during the run")

print()
for b in bad:
    print("DEFECT:", b)
sys.stdout.flush()
os._exit(1 if bad else 0)
