"""
repro_3 (C07): ONE transient stat failure on the version hint (or on the current
metadata file) during a collection makes the collector decide reachability from
an UNCOMMITTED metadata file and delete files of retained snapshots.  It neither
raises nor keeps protection in force.

Table state (legal, self-healing): a committer was killed between writing its
new metadata file v<N+1>-xxxx.metadata.json and flipping the version hint.  The
table is still at version N; the stray file is never referenced.  Here the
killed commit was an expire_snapshots().

Fault: during the collection, a single os.stat() of metadata.version-hint.text
(or of metadata/v<N>-....metadata.json) fails with EIO (NFS hiccup, ESTALE,
EACCES ... anything that is not ENOENT).

LocalStorageBackend.exists() is os.path.exists(), which swallows every OSError
and answers False.  MetadataManager._current_version_info() reads that as "hint
absent / points at a missing file" and falls back to scanning metadata/, picking
the highest version number = the killed committer's uncommitted file.  GC's own
guard (garbage_collector.py:98-105) does not help: it validates a hint read of
its own and then calls refresh(), which re-reads the hint independently.

Exit 1 when the defect manifests.
"""
import errno
import os
import shutil
import subprocess
import sys
import tempfile
import time

sys.path.insert(0, "/tmp/seedwt/A2/src")
import logging
logging.disable(logging.CRITICAL)

from datashard import Schema, create_table  # noqa: E402
from datashard.transaction import Table  # noqa: E402

SCHEMA = Schema(schema_id=1, fields=[{"id": 1, "name": "id", "type": "int", "required": True}])
root = tempfile.mkdtemp(prefix="repro3_", dir="/tmp/seedout/A2/scratch" if os.path.isdir("/tmp/seedout/A2/scratch") else "/tmp")
gold = os.path.join(root, "gold")

t = create_table(gold, SCHEMA)
t.append_records([{"id": 1}], SCHEMA)                       # S1: {F1}
f1 = t._get_all_data_files()[0].file_path
t.append_records([{"id": 2}], SCHEMA)                       # S2: {F1, F2}
with t.new_transaction() as tx:                             # S3: {F2}
    tx.delete_files([f1])
    tx.commit()
HINT = "metadata.version-hint.text"
hint_before = open(os.path.join(gold, HINT)).read()
print("committed version:", hint_before, "| retained snapshots:", len(t.snapshots()))

# --- a committer is killed between the metadata write and the hint flip --------
crasher = f"""
import os, sys, time
sys.path.insert(0, "/tmp/seedwt/A2/src")
import logging; logging.disable(logging.CRITICAL)
from datashard.transaction import Table
t = Table({gold!r})
real = t.storage.write_file
def w(path, content):
    if path == "metadata.version-hint.text":
        os._exit(0)                      # kill -9 / power cut right before the commit point
    return real(path, content)
t.storage.write_file = w
tx = t.new_transaction().begin()
tx.expire_snapshots(int(time.time() * 1000) + 10000)   # would drop S1 and S2
tx.commit()
os._exit(3)
"""
rc = subprocess.run([sys.executable, "-c", crasher]).returncode
assert rc == 0, rc
assert open(os.path.join(gold, HINT)).read() == hint_before
print("metadata files:", sorted(f for f in os.listdir(os.path.join(gold, "metadata")) if f.endswith(".json")))
print("hint still names:", hint_before)


def retained_files(table):
    md = table.metadata_manager.refresh()
    need = set()
    for s in md.snapshots:
        ml = s.manifest_list.lstrip("/")
        need.add(ml)
        for m in table.file_manager.read_manifest_list_file(ml):
            need.add(m.manifest_path.lstrip("/"))
            for df in table.file_manager.read_manifest_file(m.manifest_path.lstrip("/")):
                need.add(df.file_path.lstrip("/"))
    return md, need


md, need = retained_files(Table(gold))
print(f"{len(md.snapshots)} retained snapshots reference {len(need)} files")

old = time.time() - 7200        # everything older than the default 1h grace period


def fresh_copy():
    tp = os.path.join(root, "work")
    shutil.rmtree(tp, ignore_errors=True)
    shutil.copytree(gold, tp)
    for r, _d, fs in os.walk(tp):
        for f in fs:
            os.utime(os.path.join(r, f), (old, old))
    return tp


real_stat = os.stat


def gc_with_single_fault(kth):
    """Run one collection; the kth os.stat() that touches the hint or the
    committed metadata file fails once with EIO. Returns (calls, outcome, lost)."""
    tp = fresh_copy()
    watched = {
        os.path.realpath(os.path.join(tp, HINT)): "hint",
        os.path.realpath(os.path.join(tp, "metadata", hint_before)): "current-metadata",
    }
    seen = []

    def flaky(path, *a, **kw):
        try:
            p = os.fspath(path)
        except TypeError:
            p = None
        if isinstance(p, str) and p in watched:
            seen.append(watched[p])
            if len(seen) - 1 == kth:
                raise OSError(errno.EIO, "Input/output error", p)
        return real_stat(path, *a, **kw)

    table = Table(tp, create_if_not_exists=False)
    os.stat = flaky
    try:
        try:
            outcome = f"returned {table.garbage_collect()}"
        except Exception as e:
            outcome = f"raised {type(e).__name__}"
    finally:
        os.stat = real_stat
    lost = sorted(p for p in need if not os.path.exists(os.path.join(tp, p)))
    still = open(os.path.join(tp, HINT)).read()
    assert still == hint_before
    return seen, outcome, lost


seen, outcome, lost = gc_with_single_fault(-1)
print(f"\nno fault: GC {outcome}; lost={lost}")
n = len(seen)
defect = False
for k in range(n):
    seen, outcome, lost = gc_with_single_fault(k)
    what = seen[k] if k < len(seen) else "?"
    print(f"single EIO on stat #{k} ({what}): GC {outcome}; files of retained snapshots deleted: {len(lost)}")
    for p in lost:
        print("      ", p)
    if lost:
        defect = True

print()
if defect:
    print("DEFECT (C07): a transient stat failure was read as 'hint absent'; GC used the uncommitted")
    print("metadata file of a crashed committer and deleted files of snapshots the table still retains.")
sys.stdout.flush()
os._exit(1 if defect else 0)
