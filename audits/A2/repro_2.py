"""
repro_2 (C05): a data file that append_files() accepted, that every scan reads
fine, and that is referenced by the CURRENT snapshot is deleted by a plain
garbage_collect() - because its path in the manifest is spelled non-canonically
('data//f.parquet', './data/f.parquet', 'data/./f.parquet', 'data/sub/../f.parquet').

The collector compares strings: reachable paths are only stripped of leading
slashes (garbage_collector.py:_normalize_path), while the local listing yields
canonical relative paths ('data/f.parquet').  Storage (os.path.realpath) treats
all these spellings as the same file, so validation, schema check and reads
succeed; only GC disagrees and classifies the live file as an orphan.

No concurrency, no faults, default grace period.  Exit 1 when it manifests.
"""
import os
import sys
import tempfile
import time

sys.path.insert(0, "/tmp/seedwt/A2/src")
import logging
logging.disable(logging.CRITICAL)

from datashard import DataFile, FileFormat, Schema, create_table  # noqa: E402
from datashard.transaction import Table  # noqa: E402

SCHEMA = Schema(schema_id=1, fields=[{"id": 1, "name": "id", "type": "int", "required": True}])
root = tempfile.mkdtemp(prefix="repro2_", dir="/tmp/seedout/A2/scratch" if os.path.isdir("/tmp/seedout/A2/scratch") else "/tmp")

bad = []
SPELLINGS = [
    "/data/f.parquet",          # control: canonical Iceberg-style
    "data/f.parquet",           # control: canonical relative
    "data//f.parquet",          # e.g. f"data/{partition_dir}/{name}" with an empty partition_dir
    "./data/f.parquet",
    "data/./f.parquet",
    "data/sub/../f.parquet",
]
for i, spelling in enumerate(SPELLINGS):
    tp = os.path.join(root, f"t{i}")
    t = create_table(tp, SCHEMA)
    t.append_records([{"id": 1}], SCHEMA)
    os.makedirs(os.path.join(tp, "data", "sub"), exist_ok=True)
    written = t.file_manager.data_file_manager.write_data_file("data/f.parquet", [{"id": 2}], SCHEMA)
    with t.new_transaction() as tx:
        tx.append_files([DataFile(
            file_path=spelling, file_format=FileFormat.PARQUET, partition_values={},
            record_count=1, file_size_in_bytes=written.file_size_in_bytes, checksum=written.checksum,
        )])
        tx.commit()
    before = sorted(r["id"] for r in t.scan())
    # two hours later ...
    old = time.time() - 7200
    for r, _d, fs in os.walk(tp):
        for f in fs:
            os.utime(os.path.join(r, f), (old, old))
    stats = Table(tp).garbage_collect()                    # default grace: 1 hour
    exists = os.path.exists(os.path.join(tp, "data", "f.parquet"))
    try:
        after = sorted(r["id"] for r in Table(tp).scan())
    except Exception as e:
        after = f"{type(e).__name__}"
    verdict = "ok" if exists else "LIVE FILE DELETED"
    print(f"{spelling!r:26} scan before={before}  gc deleted data_files={stats['data_files']}  "
          f"file exists={exists}  scan after={after}  -> {verdict}")
    if not exists:
        bad.append(spelling)

print()
if bad:
    print("DEFECT (C05): GC deleted a file referenced by the current snapshot for spellings:", bad)
sys.stdout.flush()
os._exit(1 if bad else 0)
