"""Tiny in-memory S3 fake (strongly consistent) for the A5 audit reproducers.

Supports get/put/head/delete/list_objects_v2 (+paginator), Range GETs,
If-Match / If-None-Match on PUT, a virtual clock for LastModified, a request
log, and a per-request hook (fault injection / interleaving hand-offs).
ETag = quoted MD5 of the body, exactly like real S3 for plain PUTs.
"""
import hashlib
import io
import threading
from datetime import datetime, timedelta, timezone

from botocore.exceptions import ClientError


def err(code, status, op):
    return ClientError({"Error": {"Code": code, "Message": code},
                        "ResponseMetadata": {"HTTPStatusCode": status}}, op)


class Body(io.BytesIO):
    pass


class FakeS3:
    def __init__(self):
        self.objects = {}          # key -> (bytes, etag, last_modified)
        self.mu = threading.RLock()
        self.skew = timedelta(0)   # virtual clock = real clock + skew
        self.log = []              # (op, key, extra)
        self.hook = None           # hook(op, kwargs) may raise / block

    # ---- clock -----------------------------------------------------
    def now(self):
        return datetime.now(timezone.utc) + self.skew

    def age_all(self, seconds):
        """Equivalent to advancing every observer's clock by `seconds`:
        make every stored object `seconds` older."""
        with self.mu:
            for k, (b, e, lm) in list(self.objects.items()):
                self.objects[k] = (b, e, lm - timedelta(seconds=seconds))

    def _pre(self, op, kw):
        self.log.append((op, kw.get("Key", kw.get("Prefix")), {k: v for k, v in kw.items() if k not in ("Body", "Bucket", "Key")}))
        if self.hook:
            self.hook(op, kw)

    # ---- API -------------------------------------------------------
    def put_object(self, **kw):
        self._pre("PUT", kw)
        key = kw["Key"]
        body = kw["Body"]
        if hasattr(body, "read"):
            body = body.read()
        body = bytes(body)
        with self.mu:
            cur = self.objects.get(key)
            if kw.get("IfNoneMatch") == "*" and cur is not None:
                raise err("PreconditionFailed", 412, "PutObject")
            if "IfMatch" in kw:
                if cur is None:
                    raise err("NoSuchKey", 404, "PutObject")
                if cur[1] != kw["IfMatch"]:
                    raise err("PreconditionFailed", 412, "PutObject")
            etag = '"%s"' % hashlib.md5(body).hexdigest()
            self.objects[key] = (body, etag, self.now())
            return {"ETag": etag}

    def get_object(self, **kw):
        self._pre("GET", kw)
        key = kw["Key"]
        with self.mu:
            cur = self.objects.get(key)
            if cur is None:
                raise err("NoSuchKey", 404, "GetObject")
            data = cur[0]
            rng = kw.get("Range")
            if rng:
                a, b = rng[len("bytes="):].split("-")
                a = int(a)
                b = int(b) if b else len(data) - 1
                if a >= len(data) or a > b:
                    raise err("InvalidRange", 416, "GetObject")
                data = data[a:b + 1]
            return {"Body": Body(data), "ETag": cur[1], "LastModified": cur[2],
                    "ContentLength": len(data)}

    def head_object(self, **kw):
        self._pre("HEAD", kw)
        with self.mu:
            cur = self.objects.get(kw["Key"])
            if cur is None:
                raise err("404", 404, "HeadObject")
            return {"ETag": cur[1], "LastModified": cur[2], "ContentLength": len(cur[0])}

    def delete_object(self, **kw):
        self._pre("DELETE", kw)
        with self.mu:
            self.objects.pop(kw["Key"], None)
            return {}

    def list_objects_v2(self, **kw):
        self._pre("LIST", kw)
        prefix = kw.get("Prefix", "")
        maxk = kw.get("MaxKeys", 1000)
        start = kw.get("ContinuationToken", "")
        with self.mu:
            keys = sorted(k for k in self.objects if k.startswith(prefix) and k > start)
            page = keys[:maxk]
            resp = {"KeyCount": len(page), "IsTruncated": len(keys) > len(page)}
            if page:
                resp["Contents"] = [{"Key": k, "Size": len(self.objects[k][0]),
                                     "LastModified": self.objects[k][2], "ETag": self.objects[k][1]}
                                    for k in page]
            if resp["IsTruncated"]:
                resp["NextContinuationToken"] = page[-1]
            return resp

    def get_paginator(self, name):
        assert name == "list_objects_v2"
        outer = self

        class P:
            def paginate(self, **kw):
                token = None
                while True:
                    k = dict(kw)
                    if token:
                        k["ContinuationToken"] = token
                    r = outer.list_objects_v2(**k)
                    yield r
                    if not r.get("IsTruncated"):
                        return
                    token = r["NextContinuationToken"]
        return P()


class _Session:
    def __init__(self, s3):
        self._s3 = s3

    def client(self, *a, **k):
        return self._s3


class FakeBoto3:
    """Drop-in for datashard.storage_backend.boto3."""

    def __init__(self, s3):
        self._s3 = s3
        outer = self

        class session:  # noqa: N801
            @staticmethod
            def Session():
                return _Session(outer._s3)
        self.session = session


def install(s3=None):
    import os
    os.environ["DATASHARD_STORAGE_TYPE"] = "s3"
    os.environ["DATASHARD_S3_BUCKET"] = "b"
    import datashard.storage_backend as sb
    s3 = s3 or FakeS3()
    sb.boto3 = FakeBoto3(s3)
    return s3


# ---- fake pyarrow.fs.S3FileSystem writing into the FakeS3 -------------
def make_arrow_fs(s3):
    import pyarrow as pa
    import pyarrow.fs as pafs

    class Sink(io.BytesIO):
        def __init__(self, key):
            super().__init__()
            self._key = key
            self._done = False

        def close(self):
            if not self._done:
                self._done = True
                bucket, key = self._key.split("/", 1)
                s3.put_object(Bucket=bucket, Key=key, Body=self.getvalue())
            super().close()

    class H(pafs.FileSystemHandler):
        def __eq__(self, o): return self is o
        def __ne__(self, o): return self is not o
        def get_type_name(self): return "fakes3"
        def normalize_path(self, p): return p
        def get_file_info(self, paths):
            out = []
            for p in paths:
                b, k = p.split("/", 1)
                o = s3.objects.get(k)
                out.append(pafs.FileInfo(p, pafs.FileType.File, size=len(o[0])) if o else pafs.FileInfo(p, pafs.FileType.NotFound))
            return out
        def get_file_info_selector(self, sel): return []
        def create_dir(self, p, recursive): pass
        def delete_dir(self, p): pass
        def delete_dir_contents(self, p, missing_dir_ok=False): pass
        def delete_root_dir_contents(self): pass
        def delete_file(self, p): s3.delete_object(Bucket="b", Key=p.split("/", 1)[1])
        def move(self, a, b): raise NotImplementedError
        def copy_file(self, a, b): raise NotImplementedError
        def open_input_stream(self, p): return self.open_input_file(p)
        def open_input_file(self, p):
            return pa.BufferReader(s3.objects[p.split("/", 1)[1]][0])
        def open_output_stream(self, p, metadata): return pa.PythonFile(Sink(p), mode="w")
        def open_append_stream(self, p, metadata): raise NotImplementedError

    return pafs.PyFileSystem(H())


def install_all(s3=None):
    s3 = install(s3)
    import pyarrow.fs as pafs
    fs = make_arrow_fs(s3)
    pafs.S3FileSystem = lambda **kw: fs
    return s3
