"""C20 (minor) - exists() is "exact keys only" on S3 but not on the local backend:
LocalStorageBackend.exists() answers True for any DIRECTORY (os.path.exists),
S3StorageBackend.exists() answers False for the same path unless it is spelled
with a trailing '/'. Same operation sequence, different observable result; the
local data-file validation therefore accepts a directory as a "data file".

Run: PYTHONPATH=/tmp/seedwt/A5/src /venv/bin/python repro_6.py
"""
import logging, os, sys, tempfile
sys.path.insert(0, os.path.dirname(os.path.abspath(__file__)))
logging.disable(logging.CRITICAL)
import fakes3
import datashard.s3_consistency as sc
sc.time.sleep = lambda s: None
import datashard.storage_backend as sb
from datashard.storage_backend import LocalStorageBackend, S3StorageBackend

s3 = fakes3.FakeS3()
sb.boto3 = fakes3.FakeBoto3(s3)
L = LocalStorageBackend(os.path.join(tempfile.mkdtemp(dir="/tmp", prefix="a5_r6_"), "t"))
S = S3StorageBackend("b", prefix="t")
bad = 0
for be in (L, S):
    be.write_file("data/sub/c.parquet", b"x")
for p in ["data/sub/c.parquet", "data/sub", "data", "/data", "data/su", "data/sub/c.parquet/x"]:
    a, b = L.exists(p), S.exists(p)
    print(f"exists({p!r:24}) local={a!s:5} s3={b!s:5}" + ("" if a == b else "   <-- DIFFERENT"))
    bad += a != b
for be in (L, S):
    be.delete_file("data/sub/c.parquet")
a, b = L.exists("data/sub/"), S.exists("data/sub/")
print(f"after deleting the only file: exists('data/sub/') local={a} s3={b}" + ("" if a == b else "   <-- DIFFERENT"))
bad += a != b
sys.stdout.flush()
os._exit(1 if bad else 0)
