"""C19 - S3 CAS lock: stale-lock takeover is keyed to the lock object's ETag, but
a renewal rewrites the SAME bytes (the holder's lock_id), and S3's ETag for a
plain PUT is the MD5 of the body - so a renewal does not change the ETag and
the takeover's If-Match cannot detect it (the code comment claims it does).

Interleaving:
  A.acquire()                       (lock body = A.lock_id, ETag = md5(A.lock_id))
  ---- clock advances 61s; A's heartbeat is late (e.g. transient S3 errors) ----
  B: PUT If-None-Match:*  -> 412
  B: HEAD                 -> age 61s > lease 60s, etag E
  A: renew PUT If-Match:E -> 200, LastModified = now, ETag still E   (A's lease is fresh again)
  B: PUT If-Match:E       -> 200  => B "took over" a lock whose lease has NOT lapsed
Same thing if A releases and re-acquires (same provider instance => same body => same ETag)
between B's HEAD and PUT.

Run: PYTHONPATH=/tmp/seedwt/A5/src /venv/bin/python repro_5.py
"""
import logging, os, sys
sys.path.insert(0, os.path.dirname(os.path.abspath(__file__)))
logging.disable(logging.CRITICAL)
import fakes3
from datashard.lock_provider import S3LockProvider

bad = 0
for variant in ("renew", "release+reacquire"):
    s3 = fakes3.FakeS3()

    def mk():
        p = S3LockProvider(s3, "b", "t/.locks/metadata.lock", timeout=0.0, lease_seconds=60)
        p._start_heartbeat = lambda: None   # renewals driven by hand (virtual time)
        return p

    A, B = mk(), mk()
    assert A.acquire()
    s3.age_all(61)                          # clock +61s, A has not renewed yet
    state = {}

    def hook(op, kw):
        if op == "PUT" and "IfMatch" in kw and kw["Body"] == B.lock_id.encode():
            s3.hook = None                  # B has done its HEAD, is about to PUT If-Match
            if variant == "renew":
                A._renew_once()
            else:
                A.release()
                assert A.acquire()
            h = s3.head_object(Bucket="b", Key=A.key)
            state["age"] = (s3.now() - h["LastModified"]).total_seconds()
            state["a_locked"] = A.is_locked

    s3.hook = hook
    got_b = B._try_acquire()                # one acquisition attempt of B.acquire()
    s3.hook = None
    print(f"[{variant}] at B's takeover PUT: A.is_locked={state['a_locked']}, lock age={state['age']:.3f}s (lease 60s)"
          f" -> B acquired: {got_b}")
    if got_b and state["a_locked"] and state["age"] < 60:
        bad += 1
        print(f"[{variant}] DEFECT: lock taken over although its lease had not lapsed; A and B both report holding it")
    print(f"[{variant}] (A notices only on its next round-trip: A.is_held() -> {A.is_held()})")
sys.stdout.flush()
os._exit(1 if bad else 0)
