"""
repro_1b - C06, same root cause as repro_1 (marker keyed by basename), cross-transaction form.

Two transactions opened on ONE shared Table handle (two ingest threads, one per partition
directory) each append a pre-built file named part-0.parquet:
  A: append_files([data/p=1/part-0.parquet])  -> writes metadata/inflight/part-0.parquet.inflight (payload p=1)
  B: append_files([data/p=2/part-0.parquet])  -> OVERWRITES the same marker (payload p=2)   [A unprotected]
  A: commit() -> True, _finish_committed deletes "its" marker                                 [B unprotected]
  G: garbage_collect(grace 1 h): markers (none) + metadata (A's commit) read -> pause
  B: commit() -> True
  G: lists data/, deletes data/p=2/part-0.parquet (2 h old, not in its reachable set)
Exit 1 when the committed file is gone.
"""
import logging, os, shutil, sys, tempfile, threading, time
logging.disable(logging.CRITICAL)
import pyarrow as pa, pyarrow.parquet as pq
from datashard import create_table, load_table, Schema, DataFile, FileFormat
from datashard import garbage_collector as gcmod

SCHEMA = Schema(schema_id=1, fields=[{"id": 1, "name": "k", "type": "long", "required": True}])
root = tempfile.mkdtemp(dir="/dev/shm" if os.path.isdir("/dev/shm") else None, prefix="b3r1b_")
path = root + "/t"
t = create_table(path, SCHEMA)
arrow = t.file_manager.data_file_manager.create_arrow_schema(SCHEMA)
old = time.time() - 2 * 3600
dfs = []
for n, rel in enumerate(["data/p=1/part-0.parquet", "data/p=2/part-0.parquet"]):
    full = os.path.join(path, rel)
    os.makedirs(os.path.dirname(full), exist_ok=True)
    pq.write_table(pa.Table.from_pylist([{"k": n + 1}], schema=arrow), full)
    os.utime(full, (old, old))
    dfs.append(DataFile(file_path="/" + rel, file_format=FileFormat.PARQUET, partition_values={},
                        record_count=1, file_size_in_bytes=os.path.getsize(full)))

gc_ready, b_done = threading.Event(), threading.Event()
orig = gcmod.GarbageCollector._gc_prefix
first = [True]
def hooked(self, prefix, reachable, grace):
    if first[0]:
        first[0] = False
        gc_ready.set(); b_done.wait(30)
    return orig(self, prefix, reachable, grace)
gcmod.GarbageCollector._gc_prefix = hooked

inflight = os.path.join(path, "metadata/inflight")
txa = t.new_transaction().begin(); txa.append_files([dfs[0]])
txb = t.new_transaction().begin(); txb.append_files([dfs[1]])
print("markers with A and B open :", os.listdir(inflight),
      open(os.path.join(inflight, "part-0.parquet.inflight")).read())
ra = txa.commit()
print("markers after A committed  :", os.listdir(inflight), "(B still open)")
res = {}
g = threading.Thread(target=lambda: res.update(gc=t.garbage_collect(grace_period_ms=3600_000)))
g.start(); gc_ready.wait(30)
rb = txb.commit()
b_done.set(); g.join()
gcmod.GarbageCollector._gc_prefix = orig

gone = not os.path.exists(os.path.join(path, "data/p=2/part-0.parquet"))
try:
    scan = sorted(r["k"] for r in load_table(path).scan())
except Exception as e:
    scan = f"{type(e).__name__}: {str(e)[:90]}"
print("commit A:", ra, "commit B:", rb, "gc:", res.get("gc"), "B's file gone:", gone, "scan:", scan)
shutil.rmtree(root)
if ra and rb and gone:
    print("DEFECT: B's acknowledged commit references a file GC deleted (grace 1h >> run)")
    (sys.stdout.flush(), os._exit(1))
(sys.stdout.flush(), os._exit(0))
