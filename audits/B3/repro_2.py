"""
repro_2 - shared-handle cache: DataFileManager._arrow_schema_cache is keyed by schema_id ONLY.

One Table handle on a table without a persisted schema (create_table(path); appends pass schema=).
Two writers pass different Schema objects that carry the same schema_id (1, the id every doc
example uses). The first conversion is cached; every later write through the handle is encoded
with the FIRST schema: pa.Table.from_pylist(records, schema=<cached>) silently drops the columns
the cached schema lacks. validate_records_strict() checked the records against the CALLER's schema,
so nothing raises and commit() returns True.
Expected: the acknowledged row keeps b='kept?' (or the append is rejected).  Exit 1 when b is lost.
"""
import logging, os, shutil, sys, tempfile, threading
logging.disable(logging.CRITICAL)
from datashard import create_table, load_table, Schema

root = tempfile.mkdtemp(dir="/dev/shm" if os.path.isdir("/dev/shm") else None, prefix="b3r2_")
t = create_table(root + "/t")                      # no persisted schema
S_A = Schema(schema_id=1, fields=[{"id": 1, "name": "a", "type": "long", "required": True}])
S_B = Schema(schema_id=1, fields=[{"id": 1, "name": "a", "type": "long", "required": True},
                                  {"id": 2, "name": "b", "type": "string", "required": False}])
acks = {}
th1 = threading.Thread(target=lambda: acks.update(A=t.append_records([{"a": 1}], schema=S_A)))
th1.start(); th1.join()
th2 = threading.Thread(target=lambda: acks.update(B=t.append_records([{"a": 2, "b": "kept?"}], schema=S_B)))
th2.start(); th2.join()
rows = load_table(root + "/t").scan()
print("acks:", acks, "rows:", rows)
# control: the same second append through a FRESH handle keeps the column in its data file
t2 = load_table(root + "/t")
tx = t2.new_transaction().begin(); tx.append_data([{"a": 3, "b": "fresh"}], schema=S_B)
f = tx._operations[0]["files"][0].file_path
print("fresh-handle file rows:", t2.file_manager.data_file_manager.read_data_file(f)); tx.rollback()
shutil.rmtree(root)
lost = acks.get("B") and not any(r.get("b") == "kept?" for r in rows)
if lost:
    print("DEFECT: acknowledged append lost column 'b' (written with the cached schema of another writer)")
sys.stdout.flush(); os._exit(1 if lost else 0)
