"""
repro_4 - C06: an UNREADABLE in-flight marker protects only 'data/<name>' and
'metadata/manifests/<name>', not the file the marker was written for.

garbage_collector._load_inflight_protection(): when the marker payload cannot be read
(_MarkerUnreadable) the collector does not abort; it "keeps protection in force for every location
a file of that name can live in" - but only adds data/<basename> and manifests/<basename>. A
pre-built file in a partition directory (data/p=2/x.parquet) is left unprotected.

Schedule (shared handle): W: append_files([data/p=2/x.parquet])  (file 2 h old; marker written)
  G: garbage_collect(grace 1 h): marker listed, ONE transient EIO on reading its payload, metadata read -> pause
  W: commit() -> True        G: lists data/, deletes data/p=2/x.parquet.
Control: same schedule without the read fault -> file kept.   Exit 1 when the committed file is gone.
"""
import errno, logging, os, shutil, sys, tempfile, threading, time
logging.disable(logging.CRITICAL)
import pyarrow as pa, pyarrow.parquet as pq
from datashard import create_table, load_table, Schema, DataFile, FileFormat
from datashard import garbage_collector as gcmod

S = Schema(schema_id=1, fields=[{"id": 1, "name": "k", "type": "long", "required": True}])

def run(fault):
    root = tempfile.mkdtemp(dir="/dev/shm" if os.path.isdir("/dev/shm") else None, prefix="b3r4_")
    path = root + "/t"; t = create_table(path, S)
    rel = "data/p=2/x.parquet"; full = os.path.join(path, rel)
    os.makedirs(os.path.dirname(full))
    pq.write_table(pa.Table.from_pylist([{"k": 7}], schema=t.file_manager.data_file_manager.create_arrow_schema(S)), full)
    old = time.time() - 7200; os.utime(full, (old, old))
    df = DataFile(file_path="/" + rel, file_format=FileFormat.PARQUET, partition_values={}, record_count=1,
                  file_size_in_bytes=os.path.getsize(full))
    ready, done = threading.Event(), threading.Event()
    orig_gc = gcmod.GarbageCollector._gc_prefix; first = [True]
    def hooked(self, prefix, reach, grace):
        if first[0]:
            first[0] = False; ready.set(); done.wait(30)
        return orig_gc(self, prefix, reach, grace)
    gcmod.GarbageCollector._gc_prefix = hooked
    orig_read = t.storage.read_file; shots = [1 if fault else 0]
    def read_file(p):
        if p.endswith(".inflight") and shots[0] and threading.current_thread().name == "gc":
            shots[0] -= 1; raise OSError(errno.EIO, "Input/output error")
        return orig_read(p)
    t.storage.read_file = read_file
    res = {}
    tx = t.new_transaction().begin(); tx.append_files([df])
    def gc():
        try: res["gc"] = t.garbage_collect(grace_period_ms=3600_000)
        except Exception as e: res["gc"] = repr(e)
    g = threading.Thread(target=gc, name="gc"); g.start(); ready.wait(30)
    res["commit"] = tx.commit(); done.set(); g.join()
    gcmod.GarbageCollector._gc_prefix = orig_gc
    res["file_exists"] = os.path.exists(full)
    try: res["scan"] = load_table(path).scan()
    except Exception as e: res["scan"] = type(e).__name__
    shutil.rmtree(root); return res

c = run(False); b = run(True)
print("control (no fault):", c); print("one EIO on marker read:", b)
bad = c["file_exists"] and b["commit"] is True and not b["file_exists"]
if bad: print("DEFECT: GC did not abort on an unreadable marker and deleted the file it protects; commit acknowledged")
sys.stdout.flush(); os._exit(1 if bad else 0)
