"""
repro_3 - Transaction state is checked OUTSIDE its RLock: rollback() returns True, the concurrent
commit() of the same Transaction then still commits and also returns True.

commit() tests is_active() before taking self._lock and never re-tests it, neither after acquiring
the lock nor at the top of a retry; the lock is released while commit() sleeps in its
ConcurrentModificationException back-off. rollback() (watchdog / cancel thread) gets the lock in
that window, marks the transaction rolled back and returns True; the retry loop then carries on.
(For append_data transactions the retry fails closed on the deleted data file; delete_files /
expire_snapshots / append_files transactions commit.)

Schedule: A: tx.delete_files([F]); commit() -> 1st attempt loses a real OCC race (another append
lands between its refresh and its commit) -> back-off sleep | B: tx.rollback() -> True |
A: retry -> commit() returns True, F is gone from the table.      Exit 1 when both return True.
"""
import logging, os, shutil, sys, tempfile, threading, time
logging.disable(logging.CRITICAL)
from datashard import create_table, load_table, Schema
from datashard import transaction as txmod

root = tempfile.mkdtemp(dir="/dev/shm" if os.path.isdir("/dev/shm") else None, prefix="b3r3_")
S = Schema(schema_id=1, fields=[{"id": 1, "name": "k", "type": "long", "required": True}])
t = create_table(root + "/t", S)
t.append_records([{"k": 1}])
F = t._get_all_data_files()[0].file_path

tx = t.new_transaction().begin()
tx.delete_files([F])

in_backoff, rolled = threading.Event(), threading.Event()
orig_ops = txmod.Transaction._commit_file_ops
calls = [0]
def ops(self, base, *a):
    calls[0] += 1
    if self is tx and calls[0] == 1:
        t.append_records([{"k": 2}])          # a real concurrent commit -> our base is stale
    return orig_ops(self, base, *a)
txmod.Transaction._commit_file_ops = ops
real_sleep = time.sleep
def sleep(d):
    if threading.current_thread().name == "committer" and not rolled.is_set():
        in_backoff.set(); rolled.wait(10)      # pre-emption inside the back-off sleep
    real_sleep(0)
time.sleep = sleep

res = {}
def committer():
    try: res["commit"] = tx.commit()
    except Exception as e: res["commit"] = repr(e)
a = threading.Thread(target=committer, name="committer"); a.start()
in_backoff.wait(10)
res["rollback"] = tx.rollback()
rolled.set(); a.join()
time.sleep = real_sleep
rows = sorted(r["k"] for r in load_table(root + "/t").scan())
print("rollback() ->", res["rollback"], "| commit() ->", res["commit"], "| rows:", rows,
      "| tx flags committed/rolled_back:", tx._is_committed, tx._is_rolled_back)
shutil.rmtree(root)
bad = res["rollback"] is True and res["commit"] is True and 1 not in rows
if bad:
    print("DEFECT: transaction reported rolled back AND committed; the delete was applied")
sys.stdout.flush(); os._exit(1 if bad else 0)
