"""
repro_1 - C06: in-flight GC markers are keyed by the file's BASENAME only.

tx.append_files([data/p=1/part-0.parquet, data/p=2/part-0.parquet]) (a normal
partitioned layout) registers ONE marker ("part-0.parquet.inflight", payload =
first file). _has_inflight_marker() answers True for the second file, so it is
never protected. A collection that runs concurrently with the commit (markers
read + metadata read BEFORE the commit, data/ listing AFTER it) deletes the
second file although the committed snapshot references it.

Schedule (one shared Table handle, two threads):
  W: begin, append_files([f1, f2])            (files are 2 h old, grace = 1 h)
  G: garbage_collect(): loads markers, reads metadata      -> pauses
  W: commit()  -> True
  G: resumes: lists data/, deletes orphans older than grace
Control: same schedule with distinct basenames -> nothing deleted.
Exit 1 when the defect shows.
"""
import logging, os, shutil, sys, tempfile, threading, time
logging.disable(logging.CRITICAL)
import pyarrow as pa, pyarrow.parquet as pq
from datashard import create_table, load_table, Schema, DataFile, FileFormat
from datashard import garbage_collector as gcmod

SCHEMA = Schema(schema_id=1, fields=[{"id": 1, "name": "k", "type": "long", "required": True}])


def run(names):
    root = tempfile.mkdtemp(dir="/dev/shm" if os.path.isdir("/dev/shm") else None, prefix="b3r1_")
    path = root + "/t"
    t = create_table(path, SCHEMA)
    t.append_records([{"k": 0}])
    arrow = t.file_manager.data_file_manager.create_arrow_schema(SCHEMA)
    files = []
    old = time.time() - 2 * 3600
    for n, rel in enumerate(names):
        full = os.path.join(path, rel)
        os.makedirs(os.path.dirname(full), exist_ok=True)
        pq.write_table(pa.Table.from_pylist([{"k": 100 + n}], schema=arrow), full)
        os.utime(full, (old, old))
        files.append(DataFile(file_path="/" + rel, file_format=FileFormat.PARQUET,
                              partition_values={}, record_count=1,
                              file_size_in_bytes=os.path.getsize(full)))

    gc_ready, committed = threading.Event(), threading.Event()
    orig = gcmod.GarbageCollector._gc_prefix
    first = [True]

    def hooked(self, prefix, reachable, grace):
        if first[0]:
            first[0] = False
            gc_ready.set()              # markers + metadata have been read
            committed.wait(30)          # ... the commit lands now
        return orig(self, prefix, reachable, grace)

    gcmod.GarbageCollector._gc_prefix = hooked
    res = {}
    try:
        tx = t.new_transaction().begin()
        tx.append_files(files)
        markers = sorted(os.listdir(os.path.join(path, "metadata/inflight")))
        g = threading.Thread(target=lambda: res.update(gc=t.garbage_collect(grace_period_ms=3600_000)))
        g.start()
        gc_ready.wait(30)
        res["commit"] = tx.commit()
        committed.set()
        g.join()
    finally:
        gcmod.GarbageCollector._gc_prefix = orig

    missing = [rel for rel in names if not os.path.exists(os.path.join(path, rel))]
    try:
        rows = sorted(r["k"] for r in load_table(path).scan())
        scan = rows
    except Exception as e:
        scan = f"{type(e).__name__}: {str(e)[:100]}"
    shutil.rmtree(root)
    return dict(markers=markers, commit=res.get("commit"), gc=res.get("gc"), missing=missing, scan=scan)


control = run(["data/p=1/part-a.parquet", "data/p=2/part-b.parquet"])
bug = run(["data/p=1/part-0.parquet", "data/p=2/part-0.parquet"])
print("control (distinct basenames):", control)
print("same basename in two dirs   :", bug)
if control["missing"]:
    print("unexpected: control lost files"); (sys.stdout.flush(), os._exit(2))
if bug["commit"] and bug["missing"]:
    print("DEFECT: commit acknowledged, GC (grace 1h >> run) deleted a file the committed "
          "snapshot references:", bug["missing"])
    (sys.stdout.flush(), os._exit(1))
(sys.stdout.flush(), os._exit(0))
