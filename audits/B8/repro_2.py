"""repro_2 [C09, also C02]: a collection with a short grace period destroys the files of a commit that
is in flight WHILE the collection runs - the committed current snapshot is then unreadable for ever.

GarbageCollector.collect() loads the in-flight markers first (step 0) but computes the age cutoff
late, per prefix, in _gc_prefix():  cutoff_time = time.time()*1000 - grace_period_ms.
A transaction that registers its marker AFTER step 0 and writes its file BEFORE the listing is in
neither the marker set nor the reachable set, and its file is "older than now - grace" as soon as
grace < (duration of the collection).  Table.garbage_collect()'s docstring promises "Files belonging
to in-flight transactions are protected via markers regardless of age".

Interleaving (two handles, two threads, forced with events):
    GC    : _load_inflight_protection()            -> no markers
    WRITER: append_records(): marker, data file, marker, manifest, marker, manifest list  (stalls before commit)
    GC    : refresh(), reachability, list + delete  -> deletes the writer's data file / manifest / list
    WRITER: metadata commit succeeds
Exit 1 when the committed table cannot be read afterwards.
"""
import logging, os, shutil, sys, threading, time
logging.disable(logging.CRITICAL)
from datashard import create_table, load_table, Schema
from datashard.garbage_collector import GarbageCollector

GRACE_MS = int(sys.argv[1]) if len(sys.argv) > 1 else 0
ROOT = "/tmp/seedout/B8/scratch/repro_2"
shutil.rmtree(ROOT, ignore_errors=True)
SCHEMA = Schema(schema_id=1, fields=[{"id": 1, "name": "b", "type": "long", "required": True}])
t0 = create_table(ROOT, SCHEMA)
t0.append_records([{"b": 0}], schema=SCHEMA)

writer = load_table(ROOT)
maint = load_table(ROOT)
markers_loaded = threading.Event()
files_written = threading.Event()
gc_done = threading.Event()
result = {}

# GC handle: pause after step 0 (marker load)
orig_load = GarbageCollector._load_inflight_protection
def load(self, timeout_ms):
    out = orig_load(self, timeout_ms)
    markers_loaded.set()
    files_written.wait(10)
    time.sleep(GRACE_MS / 1000.0 + 0.02)   # the collection simply takes longer than the grace period
    return out
GarbageCollector._load_inflight_protection = load

# writer handle: stall between "all files written" and the metadata commit
orig_commit = writer.metadata_manager.commit
def commit(base, new):
    files_written.set()
    gc_done.wait(10)
    return orig_commit(base, new)
writer.metadata_manager.commit = commit

def run_gc():
    try:
        result["gc"] = maint.garbage_collect(grace_period_ms=GRACE_MS)
    except Exception as e:
        result["gc"] = repr(e)
    gc_done.set()

def run_writer():
    markers_loaded.wait(10)
    try:
        result["append"] = writer.append_records([{"b": 1}], schema=SCHEMA)
    except Exception as e:
        result["append"] = repr(e)

ths = [threading.Thread(target=run_gc), threading.Thread(target=run_writer)]
[t.start() for t in ths]; [t.join() for t in ths]
GarbageCollector._load_inflight_protection = orig_load

print("grace_period_ms       :", GRACE_MS)
print("garbage_collect ->    :", result["gc"])
print("append_records  ->    :", result["append"])
fresh = load_table(ROOT)
bad = False
try:
    rows = sorted(r["b"] for r in fresh.scan())
    print("scan (fresh handle) ->:", rows)
    bad = rows != [0, 1] and result["append"] is True
except Exception as e:
    print("scan (fresh handle) -> EXC", type(e).__name__, str(e)[:120])
    bad = True
try:
    fresh.append_records([{"b": 2}], schema=SCHEMA)
    print("next append         -> ok")
except Exception as e:
    print("next append         -> EXC", type(e).__name__, str(e)[:120])
try:
    print("next collection     ->", fresh.garbage_collect(grace_period_ms=3600000))
except Exception as e:
    print("next collection     -> EXC", type(e).__name__, str(e)[:120])
if bad:
    print("DEFECT: append acknowledged, committed current snapshot unreadable (files collected under the commit)")
    sys.exit(1)
sys.exit(0)
