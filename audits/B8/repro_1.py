"""repro_1 [C09]: time_travel(timestamp=...) is resolved from TWO metadata reads.

Table.time_travel(timestamp) -> SnapshotManager.time_travel_to_timestamp():
    snapshot = self.get_snapshot_by_timestamp(ts)      # metadata read #1
    return self.time_travel_to(snapshot.snapshot_id)   # metadata read #2 (lookup by id)
A delete_snapshot / expire that commits between the two reads and removes the
snapshot found by read #1 makes the lookup answer None ("no snapshot at or before
this time") although older snapshots not newer than the requested time are
retained in EVERY metadata version that existed during the call.

Exit 1 when the defect shows.
"""
import logging, os, shutil, sys, time
logging.disable(logging.CRITICAL)
from datashard import create_table, load_table, Schema

ROOT = "/tmp/seedout/B8/scratch/repro_1"
shutil.rmtree(ROOT, ignore_errors=True)
SCHEMA = Schema(schema_id=1, fields=[{"id": 1, "name": "b", "type": "long", "required": True}])

w = create_table(ROOT, SCHEMA)
ids = []
for b in range(3):
    w.append_records([{"b": b}], schema=SCHEMA)
    ids.append(w.current_snapshot().snapshot_id)
    time.sleep(0.005)
A, B, C = ids
ts_C = w.snapshot_by_id(C).timestamp_ms

reader = load_table(ROOT)           # long-lived reader handle
other = load_table(ROOT)            # maintenance handle

# Interleaving: the maintenance commit lands right after the reader's first metadata read.
orig_refresh = reader.metadata_manager.refresh
state = {"n": 0}
def refresh():
    md = orig_refresh()
    state["n"] += 1
    if state["n"] == 1:
        other.snapshot_manager.delete_snapshot(C)   # deleting the current snapshot: table repoints to B
    return md
reader.metadata_manager.refresh = refresh

got = reader.time_travel(timestamp=ts_C + 1)
reader.metadata_manager.refresh = orig_refresh

retained_before = [A, B, C]
retained_after = [s["snapshot_id"] for s in reader.snapshots()]
print("requested time        :", ts_C + 1)
print("retained before commit:", retained_before, "-> correct answer C =", C)
print("retained after commit :", retained_after, "-> correct answer B =", B)
print("time_travel returned  :", got)
if got is None:
    print("DEFECT: lookup by timestamp answered None although snapshots A and B "
          "(both older than the requested time) were retained during the whole call")
    sys.exit(1)
if got.snapshot_id not in (B, C):
    print("DEFECT: unexpected snapshot", got.snapshot_id)
    sys.exit(1)
sys.exit(0)
